#!/bin/bash
# usage: run.sh <timeout-s> <harness> [<harness>...]   — one cargo-kani invocation, terse output
cd /verif/kani
T=$1; shift
H=""; for h in "$@"; do H="$H --harness proofs::$h"; done
cp /repo/Cargo.lock Cargo.lock
RUSTFLAGS="--cfg miri" CARGO_NET_OFFLINE=true timeout $T cargo kani --exact $H --target-dir /verif/.build/kani --output-format terse 2>&1
