//! native replay of a Kani counterexample: replay <harness> <hex bytes>
fn main() {
    let a: Vec<String> = std::env::args().collect();
    let name = &a[1];
    let hex = a.get(2).cloned().unwrap_or_default();
    let vals: Vec<u8> = (0..hex.len() / 2).map(|i| u8::from_str_radix(&hex[2 * i..2 * i + 2], 16).unwrap()).collect();
    std::panic::set_hook(Box::new(|_| {}));
    match frost_kani::run_native(name, vals) {
        Ok(()) => {
            println!("REPLAY-PASS {name}");
        }
        Err(m) if m == "ASSUMPTION-FAILED" => {
            println!("REPLAY-NA {name}: input outside the harness precondition");
            std::process::exit(3);
        }
        Err(m) => {
            println!("REPLAY-FAIL {name}: {m}");
            std::process::exit(1);
        }
    }
}
