//! K2 — identifiers: u16 -> identifier equals the RFC integer encoding; `Identifier::cmp` is the
//! numeric order of the scalar; the zero identifier is rejected.
use crate::lt_be;
use crate::src::Src;
use crate::toy::{S16, T16};
use frost_core::{Ciphersuite, Identifier};

fn id_be32<C: Ciphersuite, S: Src>(s: &mut S) {
    let n: u16 = s.u16();
    s.assume(n != 0);
    let id = Identifier::<C>::try_from(n).unwrap();
    let b = id.serialize();
    assert!(b.len() == 32);
    let mut i = 0;
    while i < 30 {
        assert!(b[i] == 0, "identifier n encodes as the 32-byte big-endian integer n");
        i += 1;
    }
    assert!(b[30] == (n >> 8) as u8 && b[31] == n as u8, "identifier n encodes as the 32-byte big-endian integer n");
}
pub fn k2_id_secp256k1<S: Src>(s: &mut S) {
    id_be32::<frost_secp256k1::Secp256K1Sha256, S>(s)
}
pub fn k2_id_secp256k1_tr<S: Src>(s: &mut S) {
    id_be32::<frost_secp256k1_tr::Secp256K1Sha256TR, S>(s)
}
pub fn k2_id_p256<S: Src>(s: &mut S) {
    id_be32::<frost_p256::P256Sha256, S>(s)
}
/// generic double-and-add of `TryFrom<u16>` on a carrier field in which every u16 is in range
pub fn k2_id_toy16<S: Src>(s: &mut S) {
    let n: u16 = s.u16();
    let r = Identifier::<T16>::try_from(n);
    if n == 0 {
        assert!(r.is_err(), "zero is not an identifier");
    } else {
        let id = r.unwrap();
        assert!(id.to_scalar() == S16(n as u32), "identifier scalar = the integer n");
        let b = id.serialize();
        assert!(b.len() == 3 && b[0] == 0 && b[1] == (n >> 8) as u8 && b[2] == n as u8, "identifier n encodes as the integer n");
    }
}
fn cmp_be32<C: Ciphersuite, S: Src>(s: &mut S) {
    let a: [u8; 32] = s.bytes::<32>();
    let b: [u8; 32] = s.bytes::<32>();
    let (Ok(x), Ok(y)) = (Identifier::<C>::deserialize(&a), Identifier::<C>::deserialize(&b)) else { return };
    let num = if lt_be(&a, &b) {
        core::cmp::Ordering::Less
    } else if lt_be(&b, &a) {
        core::cmp::Ordering::Greater
    } else {
        core::cmp::Ordering::Equal
    };
    assert!(x.cmp(&y) == num, "Identifier::cmp is the numeric order of the scalars");
    s.cover(num == core::cmp::Ordering::Less, "less");
}
pub fn k2_cmp_secp256k1<S: Src>(s: &mut S) {
    cmp_be32::<frost_secp256k1::Secp256K1Sha256, S>(s)
}
pub fn k2_cmp_p256<S: Src>(s: &mut S) {
    cmp_be32::<frost_p256::P256Sha256, S>(s)
}
/// the generic comparison on the 3-byte toy field (all pairs of in-range values)
pub fn k2_cmp_toy16<S: Src>(s: &mut S) {
    let a: u32 = s.u32();
    let b: u32 = s.u32();
    s.assume(a != 0 && b != 0 && a < 65537 && b < 65537);
    let (x, y) = (Identifier::<T16>::new(S16(a)).unwrap(), Identifier::<T16>::new(S16(b)).unwrap());
    assert!(x.cmp(&y) == a.cmp(&b), "Identifier::cmp is the numeric order of the scalars");
}
fn zero_be32<C: Ciphersuite, S: Src>(s: &mut S) {
    let a: [u8; 32] = s.bytes::<32>();
    if let Ok(id) = Identifier::<C>::deserialize(&a) {
        let mut nz = false;
        let mut i = 0;
        while i < 32 {
            nz |= a[i] != 0;
            i += 1;
        }
        assert!(nz, "the all-zero string is not an identifier");
        let out = id.serialize();
        let mut i = 0;
        while i < 32 {
            assert!(out[i] == a[i], "accepted identifier re-encodes to the input");
            i += 1;
        }
    }
}
pub fn k2_zero_secp256k1<S: Src>(s: &mut S) {
    zero_be32::<frost_secp256k1::Secp256K1Sha256, S>(s)
}
pub fn k2_zero_p256<S: Src>(s: &mut S) {
    zero_be32::<frost_p256::P256Sha256, S>(s)
}
