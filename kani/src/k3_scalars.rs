//! K3 — scalar encodings of the real suites: a byte string is accepted iff it is the canonical
//! encoding of a value below the group order, and an accepted string re-encodes to itself.
use crate::lt_be;
use crate::src::Src;
use frost_core::{Ciphersuite, Field, Group};

const N_SECP: [u8; 32] = [
    0xFF, 0xFF, 0xFF, 0xFF, 0xFF, 0xFF, 0xFF, 0xFF, 0xFF, 0xFF, 0xFF, 0xFF, 0xFF, 0xFF, 0xFF, 0xFE, 0xBA, 0xAE, 0xDC, 0xE6, 0xAF, 0x48, 0xA0, 0x3B, 0xBF, 0xD2, 0x5E, 0x8C, 0xD0, 0x36, 0x41, 0x41,
];
const N_P256: [u8; 32] = [
    0xFF, 0xFF, 0xFF, 0xFF, 0x00, 0x00, 0x00, 0x00, 0xFF, 0xFF, 0xFF, 0xFF, 0xFF, 0xFF, 0xFF, 0xFF, 0xBC, 0xE6, 0xFA, 0xAD, 0xA7, 0x17, 0x9E, 0x84, 0xF3, 0xB9, 0xCA, 0xC2, 0xFC, 0x63, 0x25, 0x51,
];

fn be32<C: Ciphersuite, S: Src>(s: &mut S, order: &[u8; 32])
where
    <<C::Group as Group>::Field as Field>::Serialization: From<[u8; 32]> + AsRef<[u8]>,
{
    let b: [u8; 32] = s.bytes::<32>();
    match <<C::Group as Group>::Field as Field>::deserialize(&b.into()) {
        Ok(x) => {
            assert!(lt_be(&b, order), "accepted scalar encoding => value below the group order");
            let out = <<C::Group as Group>::Field as Field>::serialize(&x);
            let out = out.as_ref();
            let mut i = 0;
            while i < 32 {
                assert!(out[i] == b[i], "accepted scalar encoding => re-encoding reproduces the input");
                i += 1;
            }
            s.cover(true, "some string is accepted");
        }
        Err(_) => assert!(!lt_be(&b, order), "rejected scalar encoding => value not below the group order"),
    }
}
pub fn k3_secp256k1_scalar<S: Src>(s: &mut S) {
    be32::<frost_secp256k1::Secp256K1Sha256, S>(s, &N_SECP)
}
pub fn k3_secp256k1_tr_scalar<S: Src>(s: &mut S) {
    be32::<frost_secp256k1_tr::Secp256K1Sha256TR, S>(s, &N_SECP)
}
pub fn k3_p256_scalar<S: Src>(s: &mut S) {
    be32::<frost_p256::P256Sha256, S>(s, &N_P256)
}
/// Ed448: 57-byte little-endian; accepted => re-encoding reproduces the input (hence byte 56 = 0)
pub fn k3_ed448_scalar<S: Src>(s: &mut S) {
    type F = <<frost_ed448::Ed448Shake256 as Ciphersuite>::Group as Group>::Field;
    let b: [u8; 57] = s.bytes::<57>();
    if let Ok(x) = F::deserialize(&b) {
        let out = F::serialize(&x);
        let mut i = 0;
        while i < 57 {
            assert!(out[i] == b[i], "accepted Ed448 scalar encoding => re-encoding reproduces the input");
            i += 1;
        }
        s.cover(true, "some string is accepted");
    }
}
