//! K4e — the identity-rejection logic of the Edwards suites' element decoding, over ALL byte
//! strings, with point decompression replaced (under Kani only) by a contract model.
//!
//! Field square roots are outside CBMC's reach, so `CompressedEdwardsY::decompress` is stubbed:
//! the model returns the identity exactly for the encodings whose y-coordinate is 1 modulo p
//! (x² = (y²−1)/(dy²+1) = 0 with y = 1: the neutral element — a fact about the curve equation,
//! independent of the sign bit and of whether y is reduced), and an arbitrary choice of "not a
//! point" / a fixed prime-order point otherwise. `is_torsion_free` is modelled as true for the
//! identity and arbitrary otherwise. Everything else — the suite's own wrapper, point equality,
//! the error mapping — is the real code. A counterexample is a concrete 32-byte string; natively
//! the harness body runs WITHOUT the stubs, i.e. against the real decompression.
use crate::src::Src;
use curve25519_dalek::edwards::{CompressedEdwardsY, EdwardsPoint};
use curve25519_dalek::traits::{Identity, IsIdentity};
use frost_core::Group;

/// y(b) ≡ 1 (mod 2^255 − 19): y ∈ {1, p + 1} (both below 2^255), sign bit ignored
pub fn ed25519_y_is_one(b: &[u8; 32]) -> bool {
    let top = b[31] & 0x7f;
    let mut mid_zero = true;
    let mut mid_ff = true;
    let mut i = 1;
    while i < 31 {
        mid_zero &= b[i] == 0;
        mid_ff &= b[i] == 0xff;
        i += 1;
    }
    (b[0] == 1 && mid_zero && top == 0) || (b[0] == 0xee && mid_ff && top == 0x7f)
}

/// which case of the decompression contract a harness explores (one harness per case, so that
/// the point handed to the real wrapper is a constant and its field arithmetic folds)
#[cfg(kani)]
pub static mut CASE: u8 = 0;

#[cfg(kani)]
pub fn decompress_model(c: &CompressedEdwardsY) -> Option<EdwardsPoint> {
    let one = ed25519_y_is_one(c.as_bytes());
    match unsafe { CASE } {
        0 => {
            kani::assume(one);
            Some(EdwardsPoint::identity())
        }
        1 => {
            kani::assume(!one);
            None
        }
        _ => {
            kani::assume(!one);
            Some(curve25519_dalek::constants::ED25519_BASEPOINT_POINT)
        }
    }
}
#[cfg(kani)]
pub fn is_torsion_free_model(p: &EdwardsPoint) -> bool {
    if p.is_identity() { true } else { kani::any() }
}

/// no 32-byte string decodes to the identity element (frost-ed25519); `case` selects the part
/// of the input space / of the contract: 0 = y ≡ 1 (mod p), 1 = other strings that are not
/// points, 2 = other strings that are points
fn ed25519_identity<S: Src>(s: &mut S, case: u8) {
    #[cfg(kani)]
    unsafe {
        CASE = case;
    }
    let b: [u8; 32] = s.bytes();
    if case == 0 {
        s.assume(ed25519_y_is_one(&b));
    } else {
        s.assume(!ed25519_y_is_one(&b));
    }
    let r = <frost_ed25519::Ed25519Group as Group>::deserialize(&b);
    if case == 0 {
        assert!(r.is_err(), "every encoding with y = 1 (mod p) — reduced or not, either sign bit — is rejected");
    }
    if let Ok(p) = r {
        assert!(!p.is_identity(), "element decoding never yields the identity element, whatever its encoding");
    }
}
pub fn k4_ed25519_identity_y1<S: Src>(s: &mut S) {
    ed25519_identity(s, 0)
}
pub fn k4_ed25519_identity_nopoint<S: Src>(s: &mut S) {
    ed25519_identity(s, 1)
}
pub fn k4_ed25519_identity_point<S: Src>(s: &mut S) {
    ed25519_identity(s, 2)
}

