//! K4 — element framing of the SEC1 suites: only the compressed tags 0x02/0x03 are accepted
//! (a string with any other leading byte would not re-encode to itself); the Taproot 64-byte
//! signature framing rejects every other length without panicking.
use crate::src::Src;
use frost_core::{Ciphersuite, Group};

/// x-coordinate of the P-256 generator
const GX_P256: [u8; 32] = [
    0x6B, 0x17, 0xD1, 0xF2, 0xE1, 0x2C, 0x42, 0x47, 0xF8, 0xBC, 0xE6, 0xE5, 0x63, 0xA4, 0x40, 0xF2, 0x77, 0x03, 0x7D, 0x81, 0x2D, 0xEB, 0x33, 0xA0, 0xF4, 0xA1, 0x39, 0x45, 0xD8, 0x98, 0xC2, 0x96,
];
/// x-coordinate of the secp256k1 generator
const GX_SECP: [u8; 32] = [
    0x79, 0xBE, 0x66, 0x7E, 0xF9, 0xDC, 0xBB, 0xAC, 0x55, 0xA0, 0x62, 0x95, 0xCE, 0x87, 0x0B, 0x07, 0x02, 0x9B, 0xFC, 0xDB, 0x2D, 0xCE, 0x28, 0xD9, 0x59, 0xF2, 0x81, 0x5B, 0x16, 0xF8, 0x17, 0x98,
];

/// every leading byte except the two compressed tags (symbolic: 254 values) in front of a valid
/// x-coordinate: rejected. The SEC1 "compact" tag 0x05 is the one other tag with a 33-byte body;
/// a decoder that hands it to point decompression is outside CBMC's reach (34 GB), so the runner
/// first replays the designated probe input 0x05 natively (tools/e2.py PROBES) and only then
/// asks the solver about all tags.
fn tag<C: Ciphersuite, S: Src>(s: &mut S, gx: &[u8; 32])
where
    <C::Group as Group>::Serialization: From<[u8; 33]>,
{
    let t: u8 = s.u8();
    s.assume(t != 2 && t != 3);
    let mut b = [0u8; 33];
    b[0] = t;
    let mut i = 0;
    while i < 32 {
        b[1 + i] = gx[i];
        i += 1;
    }
    let r = <C::Group as Group>::deserialize(&b.into());
    assert!(r.is_err(), "only the compressed SEC1 tags 0x02/0x03 denote a group element (any other leading byte cannot re-encode to itself)");
}
pub fn k4_p256_tag<S: Src>(s: &mut S) {
    tag::<frost_p256::P256Sha256, S>(s, &GX_P256)
}
pub fn k4_secp256k1_tag<S: Src>(s: &mut S) {
    tag::<frost_secp256k1::Secp256K1Sha256, S>(s, &GX_SECP)
}
pub fn k4_secp256k1_tr_tag<S: Src>(s: &mut S) {
    tag::<frost_secp256k1_tr::Secp256K1Sha256TR, S>(s, &GX_SECP)
}
/// Taproot signature framing: every length 0..=80 other than 64 is rejected, no panic
pub fn k4_tr_signature_length<S: Src>(s: &mut S) {
    use frost_secp256k1_tr::Secp256K1Sha256TR as TR;
    let len = s.usize_upto(80);
    s.assume(len != 64);
    let buf = [0u8; 80];
    let r = frost_core::Signature::<TR>::deserialize(&buf[..len]);
    assert!(r.is_err(), "only 64-byte strings are Taproot signatures");
    core::mem::forget(r);
}
