//! K5 — frost-core's generic framing code on the toy suite: decoding arbitrary short byte strings
//! never panics; accepted => canonical; wrong version / ciphersuite id rejected; encode/decode
//! round-trips for every value of the integer fields.
use crate::src::Src;
use crate::toy::{E, S, T};
use frost_core::keys::{KeyPackage, SigningShare, VerifyingShare};
use frost_core::Identifier;

fn any_s<X: Src>(s: &mut X) -> S {
    let x: u8 = s.u8();
    s.assume((x as u16) < crate::toy::Q);
    S(x)
}
fn any_e<X: Src>(s: &mut X) -> E {
    let x: u8 = s.u8();
    s.assume(x != 0 && (x as u16) < crate::toy::Q);
    E(x)
}

/// postcard decoding of a KeyPackage from an arbitrary string of up to 12 bytes
pub fn k5_keypackage_decode<X: Src>(src: &mut X) {
    let bytes: [u8; 12] = src.bytes::<12>();
    let len = src.usize_upto(12);
    let r = KeyPackage::<T>::deserialize(&bytes[..len]);
    if let Ok(kp) = &r {
        src.cover(true, "some string decodes");
        assert!(bytes[0] == 0, "accepted => format version 0");
        assert!(kp.signing_share().to_scalar().0 < 251);
    }
    core::mem::forget(r);
}

/// encode/decode of a KeyPackage for every min_signers and every payload
pub fn k5_keypackage_roundtrip<X: Src>(src: &mut X) {
    let ids = any_s(src);
    src.assume(ids.0 != 0);
    let id = Identifier::<T>::new(ids).unwrap();
    let min: u16 = src.u16();
    let kp = KeyPackage::<T>::new(id, SigningShare::new(any_s(src)), VerifyingShare::new(any_e(src)), frost_core::VerifyingKey::new(any_e(src)), min);
    let bytes = kp.serialize().unwrap();
    let back = KeyPackage::<T>::deserialize(&bytes);
    match back {
        Ok(k2) => {
            assert!(*k2.min_signers() == min, "threshold survives the encoding");
            assert!(k2.signing_share().to_scalar() == kp.signing_share().to_scalar());
            assert!(k2.identifier() == kp.identifier());
            core::mem::forget(k2);
        }
        Err(e) => {
            core::mem::forget(e);
            assert!(false, "an encoded key package decodes");
        }
    }
    core::mem::forget(kp);
    core::mem::forget(bytes);
}

/// the key-generation round-one secret package: every (min_signers, max_signers) survives
pub fn k5_dkg_round1_secret_roundtrip<X: Src>(src: &mut X) {
    use frost_core::keys::dkg::round1::SecretPackage;
    use frost_core::keys::{CoefficientCommitment, VerifiableSecretSharingCommitment};
    let id = Identifier::<T>::new(S(1)).unwrap();
    let (min, max): (u16, u16) = (src.u16(), src.u16());
    let c0 = any_s(src);
    let commitment = VerifiableSecretSharingCommitment::<T>::new(vec![CoefficientCommitment::new(any_e(src))]);
    let sp = SecretPackage::<T>::new(id, vec![c0], commitment, min, max);
    let bytes = sp.serialize().unwrap();
    match SecretPackage::<T>::deserialize(&bytes) {
        Ok(s2) => {
            assert!(*s2.min_signers() == min && *s2.max_signers() == max, "min_signers and max_signers survive the encoding");
            assert!(s2.coefficients()[0] == c0, "the coefficient survives the encoding");
            core::mem::forget(s2);
        }
        Err(e) => {
            core::mem::forget(e);
            assert!(false, "an encoded round-one secret package decodes");
        }
    }
    core::mem::forget(sp);
    core::mem::forget(bytes);
}

/// the key-generation round-two secret package
pub fn k5_dkg_round2_secret_roundtrip<X: Src>(src: &mut X) {
    use frost_core::keys::dkg::round2::SecretPackage;
    use frost_core::keys::{CoefficientCommitment, VerifiableSecretSharingCommitment};
    let id = Identifier::<T>::new(S(1)).unwrap();
    let (min, max): (u16, u16) = (src.u16(), src.u16());
    let sh = any_s(src);
    let commitment = VerifiableSecretSharingCommitment::<T>::new(vec![CoefficientCommitment::new(any_e(src))]);
    let sp = SecretPackage::<T>::new(id, commitment, sh, min, max);
    let bytes = sp.serialize().unwrap();
    match SecretPackage::<T>::deserialize(&bytes) {
        Ok(s2) => {
            assert!(*s2.min_signers() == min && *s2.max_signers() == max, "min_signers and max_signers survive the encoding");
            assert!(s2.secret_share() == sh, "the secret share survives the encoding");
            core::mem::forget(s2);
        }
        Err(e) => {
            core::mem::forget(e);
            assert!(false, "an encoded round-two secret package decodes");
        }
    }
    core::mem::forget(sp);
    core::mem::forget(bytes);
}

/// Signature::default_deserialize on arbitrary strings of up to 4 bytes (toy: 1 + 1 bytes)
pub fn k5_signature_decode<X: Src>(src: &mut X) {
    let bytes: [u8; 4] = src.bytes::<4>();
    let len = src.usize_upto(4);
    let r = frost_core::Signature::<T>::deserialize(&bytes[..len]);
    if let Ok(sig) = &r {
        assert!(len == 2, "wrong lengths are rejected");
        let out = sig.serialize().unwrap();
        assert!(out.len() == 2 && out[0] == bytes[0] && out[1] == bytes[1], "accepted => re-encoding reproduces the input");
        core::mem::forget(out);
        src.cover(true, "accepted");
    }
    core::mem::forget(r);
}

/// scalar / element / identifier primitives: wrong length rejected, accepted => canonical, zero id rejected
pub fn k5_primitives_decode<X: Src>(src: &mut X) {
    let bytes: [u8; 3] = src.bytes::<3>();
    let len = src.usize_upto(3);
    let r = SigningShare::<T>::deserialize(&bytes[..len]);
    if let Ok(s) = &r {
        assert!(len == 1 && s.serialize()[0] == bytes[0]);
    }
    core::mem::forget(r);
    let r = VerifyingShare::<T>::deserialize(&bytes[..len]);
    if let Ok(s) = &r {
        assert!(len == 1 && bytes[0] != 0 && s.serialize().unwrap()[0] == bytes[0], "identity and wrong lengths are rejected");
    }
    core::mem::forget(r);
    let r = Identifier::<T>::deserialize(&bytes[..len]);
    if let Ok(s) = &r {
        assert!(len == 1 && bytes[0] != 0 && s.serialize()[0] == bytes[0], "zero identifier and wrong lengths are rejected");
    }
    core::mem::forget(r);
    let r = frost_core::SigningKey::<T>::deserialize(&bytes[..len]);
    if let Ok(s) = &r {
        assert!(len == 1 && bytes[0] != 0 && s.serialize()[0] == bytes[0], "zero signing key and wrong lengths are rejected");
    }
    core::mem::forget(r);
}
