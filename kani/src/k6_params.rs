//! K6 — parameter validation for all u16 pairs.
use crate::src::Src;
use crate::toy::T;
use frost_core::keys::validate_num_of_signers;

pub fn k6_validate_num_of_signers<S: Src>(s: &mut S) {
    let min: u16 = s.u16();
    let max: u16 = s.u16();
    let r = validate_num_of_signers::<T>(min, max);
    let bad = min < 2 || max < 2 || min > max;
    assert!(r.is_err() == bad, "parameters are refused iff t < 2 or n < 2 or t > n");
    s.cover(r.is_ok(), "accepted");
    s.cover(r.is_err(), "refused");
    core::mem::forget(r);
}
