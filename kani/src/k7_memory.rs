//! K7 — secret material is wiped on request and on drop. Values with symbolic secret scalars
//! are placed in a `MaybeUninit` slot and dropped in place; the slot is read back through the
//! getters. For heap-backed coefficient vectors the zeroing is observed through the toy
//! suite's `Field::zero()` counter (reading freed heap memory is undefined).
use crate::src::Src;
use crate::toy::{E, S, T, ZERO_CALLS};
use core::mem::MaybeUninit;
use frost_core::keys::{KeyPackage, SecretShare, SigningShare, VerifyingShare};
use frost_core::keys::{CoefficientCommitment, VerifiableSecretSharingCommitment};
use frost_core::Identifier;
use zeroize::Zeroize;

fn any_nz<X: Src>(s: &mut X) -> S {
    let x: u8 = s.u8();
    s.assume(x != 0 && (x as u16) < crate::toy::Q);
    S(x)
}
fn cid(n: u16) -> Identifier<T> {
    Identifier::<T>::try_from(n).unwrap()
}

pub fn k7_keypackage<X: Src>(src: &mut X) {
    let s = any_nz(src);
    let kp = KeyPackage::<T>::new(cid(1), SigningShare::new(s), VerifyingShare::new(E(5)), frost_core::VerifyingKey::new(E(7)), 2);
    let mut slot: MaybeUninit<KeyPackage<T>> = MaybeUninit::new(kp);
    let before = unsafe { (*slot.as_ptr()).signing_share().to_scalar() };
    assert!(before == s, "control: the secret is there before the drop");
    unsafe {
        core::ptr::drop_in_place(slot.as_mut_ptr());
    }
    let after = unsafe { (*slot.as_ptr()).signing_share().to_scalar() };
    assert!(after == S(0), "dropping a key package wipes its signing share in place");
    let mut kp2 = KeyPackage::<T>::new(cid(1), SigningShare::new(s), VerifyingShare::new(E(5)), frost_core::VerifyingKey::new(E(7)), 2);
    kp2.zeroize();
    assert!(kp2.signing_share().to_scalar() == S(0), "zeroize() wipes the signing share");
}

pub fn k7_signing_share_and_key<X: Src>(src: &mut X) {
    let s = any_nz(src);
    let mut sh = SigningShare::<T>::new(s);
    sh.zeroize();
    assert!(sh.to_scalar() == S(0), "zeroize() wipes a signing share");
    // SigningKey: wiped on drop
    let key = frost_core::SigningKey::<T>::from_scalar(s).unwrap();
    let mut slot: MaybeUninit<frost_core::SigningKey<T>> = MaybeUninit::new(key);
    // SigningKey<T> is a single-field struct around the scalar: read the slot's byte directly
    assert!(core::mem::size_of::<frost_core::SigningKey<T>>() == core::mem::size_of::<S>());
    assert!(unsafe { core::ptr::read(slot.as_ptr() as *const S) } == s, "control");
    unsafe {
        core::ptr::drop_in_place(slot.as_mut_ptr());
    }
    let after = unsafe { core::ptr::read(slot.as_ptr() as *const S) };
    assert!(after == S(0), "dropping a signing key wipes it in place");
}

pub fn k7_secret_share<X: Src>(src: &mut X) {
    let s = any_nz(src);
    let commitment = VerifiableSecretSharingCommitment::<T>::new(vec![CoefficientCommitment::new(E(9)), CoefficientCommitment::new(E(11))]);
    let sh = SecretShare::<T>::new(cid(2), SigningShare::new(s), commitment);
    let mut slot: MaybeUninit<SecretShare<T>> = MaybeUninit::new(sh);
    assert!(unsafe { (*slot.as_ptr()).signing_share().to_scalar() } == s, "control");
    // explicit zeroize keeps the value alive: read through the getter
    unsafe {
        (*slot.as_mut_ptr()).zeroize();
    }
    assert!(unsafe { (*slot.as_ptr()).signing_share().to_scalar() } == S(0), "zeroize() wipes the dealer share's secret");
    unsafe {
        core::ptr::drop_in_place(slot.as_mut_ptr());
    }
    // dropping (without an explicit wipe) leaves no copy of the secret in the slot either: the
    // signing share is an inline field, readable after the heap-backed commitment is gone
    let commitment2 = VerifiableSecretSharingCommitment::<T>::new(vec![CoefficientCommitment::new(E(9)), CoefficientCommitment::new(E(11))]);
    let sh2 = SecretShare::<T>::new(cid(2), SigningShare::new(s), commitment2);
    let mut slot2: MaybeUninit<SecretShare<T>> = MaybeUninit::new(sh2);
    assert!(unsafe { (*slot2.as_ptr()).signing_share().to_scalar() } == s, "control");
    unsafe {
        core::ptr::drop_in_place(slot2.as_mut_ptr());
    }
    let after = unsafe { (*slot2.as_ptr()).signing_share().to_scalar() };
    assert!(after == S(0), "dropping a dealer share wipes its signing share in place");
}

pub fn k7_signing_nonces<X: Src>(src: &mut X) {
    use frost_core::round1::{Nonce, SigningNonces};
    let (h, b) = (any_nz(src), any_nz(src));
    let n = SigningNonces::<T>::from_nonces(Nonce::<T>::from_scalar(h), Nonce::<T>::from_scalar(b));
    let mut slot: MaybeUninit<SigningNonces<T>> = MaybeUninit::new(n);
    assert!(unsafe { (*slot.as_ptr()).hiding().to_scalar() } == h && unsafe { (*slot.as_ptr()).binding().to_scalar() } == b, "control");
    unsafe {
        core::ptr::drop_in_place(slot.as_mut_ptr());
    }
    let (h2, b2) = unsafe { ((*slot.as_ptr()).hiding().to_scalar(), (*slot.as_ptr()).binding().to_scalar()) };
    assert!(h2 == S(0) && b2 == S(0), "dropping signing nonces wipes both nonces in place");
    let mut n2 = SigningNonces::<T>::from_nonces(Nonce::<T>::from_scalar(h), Nonce::<T>::from_scalar(b));
    n2.zeroize();
    assert!(n2.hiding().to_scalar() == S(0) && n2.binding().to_scalar() == S(0), "zeroize() wipes both nonces");
}

pub fn k7_dkg_round1_secret<X: Src>(src: &mut X) {
    use frost_core::keys::dkg::round1::SecretPackage;
    let (c0, c1) = (any_nz(src), any_nz(src));
    let commitment = VerifiableSecretSharingCommitment::<T>::new(vec![CoefficientCommitment::new(E(9)), CoefficientCommitment::new(E(11))]);
    let mut sp = SecretPackage::<T>::new(cid(1), vec![c0, c1], commitment.clone(), 2, 3);
    assert!(sp.coefficients()[0] == c0 && sp.coefficients()[1] == c1, "control");
    sp.zeroize();
    let after = sp.coefficients();
    // zeroize() of a Vec wipes every element and then clears it
    let mut i = 0;
    while i < after.len() {
        assert!(after[i] == S(0), "zeroize() leaves no coefficient");
        i += 1;
    }
    core::mem::forget(after);
    // drop: every coefficient must be overwritten with the field's zero before the buffer is released
    let sp2 = SecretPackage::<T>::new(cid(1), vec![c0, c1], commitment, 2, 3);
    let before = unsafe { ZERO_CALLS };
    drop(sp2);
    let after = unsafe { ZERO_CALLS };
    assert!(after.wrapping_sub(before) >= 2, "dropping the round-one secret package overwrites every coefficient with zero");
}

pub fn k7_dkg_round2<X: Src>(src: &mut X) {
    use frost_core::keys::dkg::round2::{Package, SecretPackage};
    let s = any_nz(src);
    let commitment = VerifiableSecretSharingCommitment::<T>::new(vec![CoefficientCommitment::new(E(9)), CoefficientCommitment::new(E(11))]);
    let sp = SecretPackage::<T>::new(cid(1), commitment, s, 2, 3);
    let mut slot: MaybeUninit<SecretPackage<T>> = MaybeUninit::new(sp);
    assert!(unsafe { (*slot.as_ptr()).secret_share() } == s, "control");
    unsafe {
        (*slot.as_mut_ptr()).zeroize();
    }
    assert!(unsafe { (*slot.as_ptr()).secret_share() } == S(0), "zeroize() wipes the round-two secret share");
    unsafe {
        core::ptr::drop_in_place(slot.as_mut_ptr());
    }
    // drop of a fresh one: observed through the zero() counter
    let commitment2 = VerifiableSecretSharingCommitment::<T>::new(vec![CoefficientCommitment::new(E(9))]);
    let sp2 = SecretPackage::<T>::new(cid(1), commitment2, s, 2, 3);
    let before = unsafe { ZERO_CALLS };
    drop(sp2);
    assert!(unsafe { ZERO_CALLS }.wrapping_sub(before) >= 1, "dropping the round-two secret package overwrites the secret share");
    // the round-two package sent to a peer
    let pk = Package::<T>::new(SigningShare::new(s));
    let mut slot: MaybeUninit<Package<T>> = MaybeUninit::new(pk);
    assert!(unsafe { (*slot.as_ptr()).signing_share().to_scalar() } == s, "control");
    unsafe {
        core::ptr::drop_in_place(slot.as_mut_ptr());
    }
    assert!(unsafe { (*slot.as_ptr()).signing_share().to_scalar() } == S(0), "dropping a round-two package wipes the share in place");
}
