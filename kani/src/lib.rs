//! E2 — Kani harnesses. Build with RUSTFLAGS="--cfg miri" so that `cmov`/`zeroize` select their
//! own portable fallbacks instead of inline assembly (which Kani does not support). Every
//! harness body is an ordinary generic function over an input source, so that a Kani
//! counterexample can be replayed natively (src/bin/replay.rs) before it is reported.
pub mod k2_identifiers;
pub mod k3_scalars;
pub mod k4_edwards;
pub mod k4_elements;
pub mod k5_framing;
pub mod k6_params;
pub mod k7_memory;
pub mod src;
pub mod toy;

/// big-endian "less than" on equal-length byte strings
pub fn lt_be(a: &[u8], b: &[u8]) -> bool {
    let mut i = 0;
    while i < a.len() {
        if a[i] != b[i] {
            return a[i] < b[i];
        }
        i += 1;
    }
    false
}

#[cfg(kani)]
mod proofs {
    use crate::src::KaniSrc;
    #[kani::proof]
    #[kani::unwind(34)]
    fn k2_id_secp256k1() {
        crate::k2_identifiers::k2_id_secp256k1(&mut KaniSrc)
    }
    #[kani::proof]
    #[kani::unwind(34)]
    fn k2_id_secp256k1_tr() {
        crate::k2_identifiers::k2_id_secp256k1_tr(&mut KaniSrc)
    }
    #[kani::proof]
    #[kani::unwind(34)]
    fn k2_id_p256() {
        crate::k2_identifiers::k2_id_p256(&mut KaniSrc)
    }
    #[kani::proof]
    #[kani::unwind(18)]
    fn k2_id_toy16() {
        crate::k2_identifiers::k2_id_toy16(&mut KaniSrc)
    }
    #[kani::proof]
    #[kani::unwind(34)]
    fn k2_cmp_secp256k1() {
        crate::k2_identifiers::k2_cmp_secp256k1(&mut KaniSrc)
    }
    #[kani::proof]
    #[kani::unwind(34)]
    fn k2_cmp_p256() {
        crate::k2_identifiers::k2_cmp_p256(&mut KaniSrc)
    }
    #[kani::proof]
    #[kani::unwind(6)]
    fn k2_cmp_toy16() {
        crate::k2_identifiers::k2_cmp_toy16(&mut KaniSrc)
    }
    #[kani::proof]
    #[kani::unwind(34)]
    fn k2_zero_secp256k1() {
        crate::k2_identifiers::k2_zero_secp256k1(&mut KaniSrc)
    }
    #[kani::proof]
    #[kani::unwind(34)]
    fn k2_zero_p256() {
        crate::k2_identifiers::k2_zero_p256(&mut KaniSrc)
    }
    #[kani::proof]
    #[kani::unwind(34)]
    fn k3_secp256k1_scalar() {
        crate::k3_scalars::k3_secp256k1_scalar(&mut KaniSrc)
    }
    #[kani::proof]
    #[kani::unwind(34)]
    fn k3_secp256k1_tr_scalar() {
        crate::k3_scalars::k3_secp256k1_tr_scalar(&mut KaniSrc)
    }
    #[kani::proof]
    #[kani::unwind(34)]
    fn k3_p256_scalar() {
        crate::k3_scalars::k3_p256_scalar(&mut KaniSrc)
    }
    #[kani::proof]
    #[kani::unwind(60)]
    fn k3_ed448_scalar() {
        crate::k3_scalars::k3_ed448_scalar(&mut KaniSrc)
    }
    #[kani::proof]
    #[kani::unwind(40)]
    fn k4_p256_tag() {
        crate::k4_elements::k4_p256_tag(&mut KaniSrc)
    }
    #[kani::proof]
    #[kani::unwind(40)]
    fn k4_secp256k1_tag() {
        crate::k4_elements::k4_secp256k1_tag(&mut KaniSrc)
    }
    #[kani::proof]
    #[kani::unwind(40)]
    fn k4_secp256k1_tr_tag() {
        crate::k4_elements::k4_secp256k1_tr_tag(&mut KaniSrc)
    }
    #[kani::proof]
    #[kani::unwind(34)]
    #[kani::stub(curve25519_dalek::edwards::CompressedEdwardsY::decompress, crate::k4_edwards::decompress_model)]
    #[kani::stub(curve25519_dalek::edwards::EdwardsPoint::is_torsion_free, crate::k4_edwards::is_torsion_free_model)]
    fn k4_ed25519_identity_y1() {
        crate::k4_edwards::k4_ed25519_identity_y1(&mut KaniSrc)
    }
    #[kani::proof]
    #[kani::unwind(34)]
    #[kani::stub(curve25519_dalek::edwards::CompressedEdwardsY::decompress, crate::k4_edwards::decompress_model)]
    #[kani::stub(curve25519_dalek::edwards::EdwardsPoint::is_torsion_free, crate::k4_edwards::is_torsion_free_model)]
    fn k4_ed25519_identity_nopoint() {
        crate::k4_edwards::k4_ed25519_identity_nopoint(&mut KaniSrc)
    }
    #[kani::proof]
    #[kani::unwind(34)]
    #[kani::stub(curve25519_dalek::edwards::CompressedEdwardsY::decompress, crate::k4_edwards::decompress_model)]
    #[kani::stub(curve25519_dalek::edwards::EdwardsPoint::is_torsion_free, crate::k4_edwards::is_torsion_free_model)]
    fn k4_ed25519_identity_point() {
        crate::k4_edwards::k4_ed25519_identity_point(&mut KaniSrc)
    }
    #[kani::proof]
    #[kani::unwind(40)]
    fn k4_tr_signature_length() {
        crate::k4_elements::k4_tr_signature_length(&mut KaniSrc)
    }
    #[kani::proof]
    #[kani::unwind(14)]
    fn k5_keypackage_decode() {
        crate::k5_framing::k5_keypackage_decode(&mut KaniSrc)
    }
    #[kani::proof]
    #[kani::unwind(14)]
    fn k5_keypackage_roundtrip() {
        crate::k5_framing::k5_keypackage_roundtrip(&mut KaniSrc)
    }
    #[kani::proof]
    #[kani::unwind(14)]
    fn k5_dkg_round1_secret_roundtrip() {
        crate::k5_framing::k5_dkg_round1_secret_roundtrip(&mut KaniSrc)
    }
    #[kani::proof]
    #[kani::unwind(14)]
    fn k5_dkg_round2_secret_roundtrip() {
        crate::k5_framing::k5_dkg_round2_secret_roundtrip(&mut KaniSrc)
    }
    #[kani::proof]
    #[kani::unwind(8)]
    fn k5_signature_decode() {
        crate::k5_framing::k5_signature_decode(&mut KaniSrc)
    }
    #[kani::proof]
    #[kani::unwind(8)]
    fn k5_primitives_decode() {
        crate::k5_framing::k5_primitives_decode(&mut KaniSrc)
    }
    #[kani::proof]
    #[kani::unwind(2)]
    fn k6_validate_num_of_signers() {
        crate::k6_params::k6_validate_num_of_signers(&mut KaniSrc)
    }
    #[kani::proof]
    #[kani::unwind(40)]
    fn k7_keypackage() {
        crate::k7_memory::k7_keypackage(&mut KaniSrc)
    }
    #[kani::proof]
    #[kani::unwind(40)]
    fn k7_signing_share_and_key() {
        crate::k7_memory::k7_signing_share_and_key(&mut KaniSrc)
    }
    #[kani::proof]
    #[kani::unwind(40)]
    fn k7_secret_share() {
        crate::k7_memory::k7_secret_share(&mut KaniSrc)
    }
    #[kani::proof]
    #[kani::unwind(40)]
    fn k7_signing_nonces() {
        crate::k7_memory::k7_signing_nonces(&mut KaniSrc)
    }
    #[kani::proof]
    #[kani::unwind(40)]
    fn k7_dkg_round1_secret() {
        crate::k7_memory::k7_dkg_round1_secret(&mut KaniSrc)
    }
    #[kani::proof]
    #[kani::unwind(40)]
    fn k7_dkg_round2() {
        crate::k7_memory::k7_dkg_round2(&mut KaniSrc)
    }
}

/// run a harness body natively on concrete input bytes
pub fn run_native(name: &str, vals: Vec<u8>) -> Result<(), String> {
    use crate::src::{AssumptionFailed, ReplaySrc};
    let mut s = ReplaySrc::new(vals);
    let r = std::panic::catch_unwind(std::panic::AssertUnwindSafe(|| match name {
        "k2_id_secp256k1" => crate::k2_identifiers::k2_id_secp256k1(&mut s),
        "k2_id_secp256k1_tr" => crate::k2_identifiers::k2_id_secp256k1_tr(&mut s),
        "k2_id_p256" => crate::k2_identifiers::k2_id_p256(&mut s),
        "k2_id_toy16" => crate::k2_identifiers::k2_id_toy16(&mut s),
        "k2_cmp_secp256k1" => crate::k2_identifiers::k2_cmp_secp256k1(&mut s),
        "k2_cmp_p256" => crate::k2_identifiers::k2_cmp_p256(&mut s),
        "k2_cmp_toy16" => crate::k2_identifiers::k2_cmp_toy16(&mut s),
        "k2_zero_secp256k1" => crate::k2_identifiers::k2_zero_secp256k1(&mut s),
        "k2_zero_p256" => crate::k2_identifiers::k2_zero_p256(&mut s),
        "k3_secp256k1_scalar" => crate::k3_scalars::k3_secp256k1_scalar(&mut s),
        "k3_secp256k1_tr_scalar" => crate::k3_scalars::k3_secp256k1_tr_scalar(&mut s),
        "k3_p256_scalar" => crate::k3_scalars::k3_p256_scalar(&mut s),
        "k3_ed448_scalar" => crate::k3_scalars::k3_ed448_scalar(&mut s),
        "k4_p256_tag" => crate::k4_elements::k4_p256_tag(&mut s),
        "k4_secp256k1_tag" => crate::k4_elements::k4_secp256k1_tag(&mut s),
        "k4_secp256k1_tr_tag" => crate::k4_elements::k4_secp256k1_tr_tag(&mut s),
        "k4_ed25519_identity_y1" => crate::k4_edwards::k4_ed25519_identity_y1(&mut s),
        "k4_ed25519_identity_nopoint" => crate::k4_edwards::k4_ed25519_identity_nopoint(&mut s),
        "k4_ed25519_identity_point" => crate::k4_edwards::k4_ed25519_identity_point(&mut s),
        "k4_tr_signature_length" => crate::k4_elements::k4_tr_signature_length(&mut s),
        "k5_keypackage_decode" => crate::k5_framing::k5_keypackage_decode(&mut s),
        "k5_keypackage_roundtrip" => crate::k5_framing::k5_keypackage_roundtrip(&mut s),
        "k5_dkg_round1_secret_roundtrip" => crate::k5_framing::k5_dkg_round1_secret_roundtrip(&mut s),
        "k5_dkg_round2_secret_roundtrip" => crate::k5_framing::k5_dkg_round2_secret_roundtrip(&mut s),
        "k5_signature_decode" => crate::k5_framing::k5_signature_decode(&mut s),
        "k5_primitives_decode" => crate::k5_framing::k5_primitives_decode(&mut s),
        "k6_validate_num_of_signers" => crate::k6_params::k6_validate_num_of_signers(&mut s),
        "k7_keypackage" => crate::k7_memory::k7_keypackage(&mut s),
        "k7_signing_share_and_key" => crate::k7_memory::k7_signing_share_and_key(&mut s),
        "k7_secret_share" => crate::k7_memory::k7_secret_share(&mut s),
        "k7_signing_nonces" => crate::k7_memory::k7_signing_nonces(&mut s),
        "k7_dkg_round1_secret" => crate::k7_memory::k7_dkg_round1_secret(&mut s),
        "k7_dkg_round2" => crate::k7_memory::k7_dkg_round2(&mut s),
        _ => panic!("unknown harness"),
    }));
    match r {
        Ok(()) => Ok(()),
        Err(e) => {
            if e.downcast_ref::<AssumptionFailed>().is_some() {
                return Err("ASSUMPTION-FAILED".into());
            }
            let msg = if let Some(s) = e.downcast_ref::<&str>() { s.to_string() } else if let Some(s) = e.downcast_ref::<String>() { s.clone() } else { "panic".into() };
            Err(msg)
        }
    }
}
