//! Input source abstraction: the same harness body runs under Kani (symbolic inputs) and
//! natively (concrete inputs from a Kani counterexample) so that counterexamples are replayed
//! against the real build before being reported.
pub trait Src {
    fn u8(&mut self) -> u8;
    fn u16(&mut self) -> u16 {
        let lo = self.u8() as u16;
        let hi = self.u8() as u16;
        lo | (hi << 8)
    }
    fn u32(&mut self) -> u32 {
        let lo = self.u16() as u32;
        let hi = self.u16() as u32;
        lo | (hi << 16)
    }
    fn usize_upto(&mut self, max: usize) -> usize;
    fn assume(&mut self, c: bool);
    fn cover(&mut self, c: bool, what: &'static str);
    fn bytes<const N: usize>(&mut self) -> [u8; N] {
        let mut b = [0u8; N];
        let mut i = 0;
        while i < N {
            b[i] = self.u8();
            i += 1;
        }
        b
    }
}

#[cfg(kani)]
pub struct KaniSrc;
#[cfg(kani)]
impl Src for KaniSrc {
    fn u8(&mut self) -> u8 {
        kani::any()
    }
    fn usize_upto(&mut self, max: usize) -> usize {
        // one byte is enough for every bound used here; keeps the playback format simple
        let v: u8 = kani::any();
        kani::assume((v as usize) <= max);
        v as usize
    }
    fn assume(&mut self, c: bool) {
        kani::assume(c)
    }
    fn cover(&mut self, c: bool, _what: &'static str) {
        kani::cover!(c);
    }
}

/// concrete inputs: the byte values of a counterexample, in the order the harness asks for them
pub struct ReplaySrc {
    pub vals: Vec<u8>,
    pub pos: usize,
    pub assumption_failed: bool,
    pub exhausted: bool,
}
impl ReplaySrc {
    pub fn new(vals: Vec<u8>) -> Self {
        ReplaySrc { vals, pos: 0, assumption_failed: false, exhausted: false }
    }
}
impl Src for ReplaySrc {
    fn u8(&mut self) -> u8 {
        if self.pos < self.vals.len() {
            self.pos += 1;
            self.vals[self.pos - 1]
        } else {
            self.exhausted = true;
            0
        }
    }
    fn usize_upto(&mut self, max: usize) -> usize {
        let v = self.u8() as usize;
        if v > max {
            self.assumption_failed = true;
        }
        v.min(max)
    }
    fn assume(&mut self, c: bool) {
        if !c {
            self.assumption_failed = true;
            // stop the replay: this input is outside the harness's precondition
            std::panic::panic_any(AssumptionFailed);
        }
    }
    fn cover(&mut self, _c: bool, _what: &'static str) {}
}
pub struct AssumptionFailed;
