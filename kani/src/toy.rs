//! Toy ciphersuites: carriers for frost-core's generic byte-level code under Kani.
//! `T`: Z_251 with 1-byte encodings. `T16`: Z_65537 with 3-byte big-endian encodings (so that
//! every u16 identifier is in range). The group is (Z_q, +) with generator 3.
#![allow(non_snake_case)]
use core::convert::Infallible;
use core::ops::{Add, Mul, Sub};
use frost_core::{Ciphersuite, Field, FieldError, Group, GroupError};
use rand_core::{TryCryptoRng, TryRng};

pub const Q: u16 = 251;

/// number of times `Field::zero()` of the toy suite was evaluated (observes zeroisation)
pub static mut ZERO_CALLS: u32 = 0;

#[derive(Copy, Clone, PartialEq, Eq, Debug)]
pub struct S(pub u8);
impl Add for S {
    type Output = S;
    fn add(self, o: S) -> S {
        S(((self.0 as u16 + o.0 as u16) % Q) as u8)
    }
}
impl Sub for S {
    type Output = S;
    fn sub(self, o: S) -> S {
        S(((self.0 as u16 + Q - o.0 as u16) % Q) as u8)
    }
}
impl Mul for S {
    type Output = S;
    fn mul(self, o: S) -> S {
        S(((self.0 as u16 * o.0 as u16) % Q) as u8)
    }
}
#[derive(Copy, Clone, PartialEq, Eq, Debug)]
pub struct E(pub u8);
impl Add for E {
    type Output = E;
    fn add(self, o: E) -> E {
        E(((self.0 as u16 + o.0 as u16) % Q) as u8)
    }
}
impl Sub for E {
    type Output = E;
    fn sub(self, o: E) -> E {
        E(((self.0 as u16 + Q - o.0 as u16) % Q) as u8)
    }
}
impl Mul<S> for E {
    type Output = E;
    fn mul(self, o: S) -> E {
        E(((self.0 as u16 * o.0 as u16) % Q) as u8)
    }
}

#[derive(Copy, Clone, PartialEq, Eq, Debug)]
pub struct F;
impl Field for F {
    type Scalar = S;
    type Serialization = [u8; 1];
    fn zero() -> S {
        unsafe {
            ZERO_CALLS = ZERO_CALLS.wrapping_add(1);
        }
        S(0)
    }
    fn one() -> S {
        S(1)
    }
    fn invert(s: &S) -> Result<S, FieldError> {
        if s.0 == 0 {
            return Err(FieldError::InvalidZeroScalar);
        }
        let mut r = S(1);
        let mut b = *s;
        let mut e = Q - 2;
        while e > 0 {
            if e & 1 == 1 {
                r = r * b;
            }
            b = b * b;
            e >>= 1;
        }
        Ok(r)
    }
    fn random<R: rand_core::CryptoRng>(rng: &mut R) -> S {
        let mut b = [0u8; 1];
        rng.fill_bytes(&mut b);
        S((b[0] as u16 % Q) as u8)
    }
    fn serialize(s: &S) -> [u8; 1] {
        [s.0]
    }
    fn little_endian_serialize(s: &S) -> [u8; 1] {
        [s.0]
    }
    fn deserialize(b: &[u8; 1]) -> Result<S, FieldError> {
        if (b[0] as u16) < Q { Ok(S(b[0])) } else { Err(FieldError::MalformedScalar) }
    }
}
#[derive(Copy, Clone, PartialEq, Eq, Debug)]
pub struct G;
impl Group for G {
    type Field = F;
    type Element = E;
    type Serialization = [u8; 1];
    fn cofactor() -> S {
        S(1)
    }
    fn identity() -> E {
        E(0)
    }
    fn generator() -> E {
        E(3)
    }
    fn serialize(e: &E) -> Result<[u8; 1], GroupError> {
        if e.0 == 0 { Err(GroupError::InvalidIdentityElement) } else { Ok([e.0]) }
    }
    fn deserialize(b: &[u8; 1]) -> Result<E, GroupError> {
        if b[0] == 0 {
            Err(GroupError::InvalidIdentityElement)
        } else if (b[0] as u16) < Q {
            Ok(E(b[0]))
        } else {
            Err(GroupError::MalformedElement)
        }
    }
}
fn h(tag: u8, m: &[u8]) -> u8 {
    let mut acc: u16 = tag as u16;
    for b in m {
        acc = (acc * 31 + *b as u16 + 7) % Q;
    }
    acc as u8
}
#[derive(Copy, Clone, PartialEq, Eq, Debug)]
pub struct T;
impl Ciphersuite for T {
    const ID: &'static str = "TOY";
    type Group = G;
    type HashOutput = [u8; 1];
    type SignatureSerialization = [u8; 2];
    fn H1(m: &[u8]) -> S {
        S(h(1, m))
    }
    fn H2(m: &[u8]) -> S {
        S(h(2, m))
    }
    fn H3(m: &[u8]) -> S {
        S(h(3, m))
    }
    fn H4(m: &[u8]) -> [u8; 1] {
        [h(4, m)]
    }
    fn H5(m: &[u8]) -> [u8; 1] {
        [h(5, m)]
    }
    fn HDKG(m: &[u8]) -> Option<S> {
        Some(S(h(6, m)))
    }
    fn HID(m: &[u8]) -> Option<S> {
        Some(S(h(7, m)))
    }
}

// ---------------------------------------------------------------- Z_65537, 3-byte big-endian
pub const Q16: u32 = 65537;
#[derive(Copy, Clone, PartialEq, Eq, Debug)]
pub struct S16(pub u32);
impl Add for S16 {
    type Output = S16;
    fn add(self, o: S16) -> S16 {
        S16((self.0 + o.0) % Q16)
    }
}
impl Sub for S16 {
    type Output = S16;
    fn sub(self, o: S16) -> S16 {
        S16((self.0 + Q16 - o.0) % Q16)
    }
}
impl Mul for S16 {
    type Output = S16;
    fn mul(self, o: S16) -> S16 {
        S16(((self.0 as u64 * o.0 as u64) % Q16 as u64) as u32)
    }
}
#[derive(Copy, Clone, PartialEq, Eq, Debug)]
pub struct E16(pub u32);
impl Add for E16 {
    type Output = E16;
    fn add(self, o: E16) -> E16 {
        E16((self.0 + o.0) % Q16)
    }
}
impl Sub for E16 {
    type Output = E16;
    fn sub(self, o: E16) -> E16 {
        E16((self.0 + Q16 - o.0) % Q16)
    }
}
impl Mul<S16> for E16 {
    type Output = E16;
    fn mul(self, o: S16) -> E16 {
        E16(((self.0 as u64 * o.0 as u64) % Q16 as u64) as u32)
    }
}
fn be3(v: u32) -> [u8; 3] {
    [(v >> 16) as u8, (v >> 8) as u8, v as u8]
}
fn from_be3(b: &[u8; 3]) -> u32 {
    ((b[0] as u32) << 16) | ((b[1] as u32) << 8) | b[2] as u32
}
#[derive(Copy, Clone, PartialEq, Eq, Debug)]
pub struct F16;
impl Field for F16 {
    type Scalar = S16;
    type Serialization = [u8; 3];
    fn zero() -> S16 {
        S16(0)
    }
    fn one() -> S16 {
        S16(1)
    }
    fn invert(s: &S16) -> Result<S16, FieldError> {
        if s.0 == 0 {
            return Err(FieldError::InvalidZeroScalar);
        }
        let mut r = S16(1);
        let mut b = *s;
        let mut e = Q16 - 2;
        while e > 0 {
            if e & 1 == 1 {
                r = r * b;
            }
            b = b * b;
            e >>= 1;
        }
        Ok(r)
    }
    fn random<R: rand_core::CryptoRng>(rng: &mut R) -> S16 {
        let mut b = [0u8; 4];
        rng.fill_bytes(&mut b);
        S16(u32::from_le_bytes(b) % Q16)
    }
    fn serialize(s: &S16) -> [u8; 3] {
        be3(s.0)
    }
    fn little_endian_serialize(s: &S16) -> [u8; 3] {
        let mut b = be3(s.0);
        b.reverse();
        b
    }
    fn deserialize(b: &[u8; 3]) -> Result<S16, FieldError> {
        let v = from_be3(b);
        if v < Q16 { Ok(S16(v)) } else { Err(FieldError::MalformedScalar) }
    }
}
#[derive(Copy, Clone, PartialEq, Eq, Debug)]
pub struct G16;
impl Group for G16 {
    type Field = F16;
    type Element = E16;
    type Serialization = [u8; 3];
    fn cofactor() -> S16 {
        S16(1)
    }
    fn identity() -> E16 {
        E16(0)
    }
    fn generator() -> E16 {
        E16(3)
    }
    fn serialize(e: &E16) -> Result<[u8; 3], GroupError> {
        if e.0 == 0 { Err(GroupError::InvalidIdentityElement) } else { Ok(be3(e.0)) }
    }
    fn deserialize(b: &[u8; 3]) -> Result<E16, GroupError> {
        let v = from_be3(b);
        if v == 0 {
            Err(GroupError::InvalidIdentityElement)
        } else if v < Q16 {
            Ok(E16(v))
        } else {
            Err(GroupError::MalformedElement)
        }
    }
}
#[derive(Copy, Clone, PartialEq, Eq, Debug)]
pub struct T16;
impl Ciphersuite for T16 {
    const ID: &'static str = "TOY16";
    type Group = G16;
    type HashOutput = [u8; 1];
    type SignatureSerialization = [u8; 6];
    fn H1(m: &[u8]) -> S16 {
        S16(h(1, m) as u32)
    }
    fn H2(m: &[u8]) -> S16 {
        S16(h(2, m) as u32)
    }
    fn H3(m: &[u8]) -> S16 {
        S16(h(3, m) as u32)
    }
    fn H4(m: &[u8]) -> [u8; 1] {
        [h(4, m)]
    }
    fn H5(m: &[u8]) -> [u8; 1] {
        [h(5, m)]
    }
}

/// a random source answering every request with arbitrary (symbolic) bytes
pub struct KRng;
impl TryRng for KRng {
    type Error = Infallible;
    fn try_next_u32(&mut self) -> Result<u32, Infallible> {
        Ok(anyv())
    }
    fn try_next_u64(&mut self) -> Result<u64, Infallible> {
        Ok(anyv())
    }
    fn try_fill_bytes(&mut self, dst: &mut [u8]) -> Result<(), Infallible> {
        for b in dst.iter_mut() {
            *b = anyv();
        }
        Ok(())
    }
}
impl TryCryptoRng for KRng {}
#[cfg(kani)]
fn anyv<T: kani::Arbitrary>() -> T {
    kani::any()
}
#[cfg(not(kani))]
fn anyv<T: Default>() -> T {
    T::default()
}
