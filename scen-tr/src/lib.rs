//! C18 — Taproot signatures are valid BIP-340 signatures for the BIP-341 output key.
//! Written against the `k256`/`sha2` API surface only, so that the same source compiles
//! against the symbolic stubs (verification) and against the real crates (replay).
#![allow(non_snake_case)]
use frost_core as fc;
use frost_secp256k1_tr as tr;
use k256::elliptic_curve::ops::Reduce;
use k256::elliptic_curve::point::AffineCoordinates;
#[allow(unused_imports)]
use k256::elliptic_curve::point::DecompressPoint;
use k256::elliptic_curve::subtle::Choice;
use k256::{AffinePoint, ProjectivePoint, Scalar, U256};
use scen::lab::*;
use scen::util::*;
use sha2::{Digest, Sha256};
use std::collections::BTreeMap;
use tr::keys::Tweak;
use tr::Secp256K1Sha256TR as TR;

type Id = fc::Identifier<TR>;

// ------------------------------------------------------------------ BIP-340 / BIP-341 transcription

fn tagged_hash(tag: &str, parts: &[&[u8]]) -> [u8; 32] {
    let mut th = Sha256::new();
    th.update(tag.as_bytes());
    let t = th.finalize();
    let mut h = Sha256::new();
    h.update(&t[..]);
    h.update(&t[..]);
    for p in parts {
        h.update(p);
    }
    let out = h.finalize();
    let mut o = [0u8; 32];
    o.copy_from_slice(&out[..]);
    o
}
fn int_mod_n(b: &[u8; 32]) -> Scalar {
    <Scalar as Reduce<U256>>::reduce(&U256::from_be_slice(b))
}
fn x_of(p: &ProjectivePoint) -> [u8; 32] {
    let x = p.to_affine().x();
    let mut o = [0u8; 32];
    o.copy_from_slice(&x[..]);
    o
}
fn is_odd(p: &ProjectivePoint) -> bool {
    p.to_affine().y_is_odd().into()
}
/// BIP-340 lift_x: the point with this x and even y
fn lift_x(x: &[u8; 32]) -> Option<ProjectivePoint> {
    let a: Option<AffinePoint> = AffinePoint::decompress(&(*x).into(), Choice::from(0u8)).into();
    a.map(ProjectivePoint::from)
}
/// BIP-341 taproot_tweak_pubkey(pubkey, h) -> output key Q (as a point; its x is the output key)
pub fn taproot_output_key(internal_x: &[u8; 32], h: &[u8]) -> Option<ProjectivePoint> {
    let t = int_mod_n(&tagged_hash("TapTweak", &[internal_x, h]));
    let p = lift_x(internal_x)?;
    Some(p + ProjectivePoint::GENERATOR * t)
}
/// BIP-340 Verify(pk, m, sig), with the final comparisons routed through the lab
pub fn bip340_verify<L: Lab<TR>>(lab: &mut L, pk_x: &[u8; 32], msg: &[u8], sig: &[u8], what: &str) -> bool {
    if !lab.check(sig.len() == 64, &format!("{what}: signature is 64 bytes")) {
        return false;
    }
    let Some(p) = lift_x(pk_x) else {
        return lab.check(false, &format!("{what}: public key lifts"));
    };
    let mut r = [0u8; 32];
    r.copy_from_slice(&sig[..32]);
    let mut sb = [0u8; 32];
    sb.copy_from_slice(&sig[32..]);
    let Some(s) = scalar_from_bytes::<TR>(&sb) else {
        return lab.check(false, &format!("{what}: s is a canonical scalar"));
    };
    let e = int_mod_n(&tagged_hash("BIP0340/challenge", &[&r, pk_x, msg]));
    let rr = ProjectivePoint::GENERATOR * s - p * e;
    let Some(r_lifted) = lift_x(&r) else {
        return lab.check(false, &format!("{what}: r lifts"));
    };
    // R has even y and x(R) = r  <=>  R = lift_x(r)
    lab.eq_e(rr, r_lifted, &format!("{what}: s*G - e*P is the even-y point with x-coordinate r (BIP-340 Verify)"))
}
/// the R the BIP-340 verifier reconstructs (for "must not verify" obligations)
fn bip340_residual(pk_x: &[u8; 32], msg: &[u8], sig: &[u8]) -> Option<(ProjectivePoint, ProjectivePoint)> {
    let p = lift_x(pk_x)?;
    let mut r = [0u8; 32];
    r.copy_from_slice(&sig[..32]);
    let mut sb = [0u8; 32];
    sb.copy_from_slice(&sig[32..]);
    let s = scalar_from_bytes::<TR>(&sb)?;
    let e = int_mod_n(&tagged_hash("BIP0340/challenge", &[&r, pk_x, msg]));
    Some((ProjectivePoint::GENERATOR * s - p * e, lift_x(&r)?))
}

// ------------------------------------------------------------------ scenario

pub const ROOT_UNTWEAKED: u32 = 0;
pub const ROOT_NONE: u32 = 1;
pub const ROOT_EMPTY: u32 = 2;
pub const ROOT_32: u32 = 3;
pub const ROOT_ARBITRARY: u32 = 4;

const V_SIGN: u32 = 0; // aux: root kind | dkg << 4
const V_CHEAT: u32 = 1; // aux: root kind | mode << 4 | slot << 8
const V_DKG_KEY: u32 = 2;
const V_SINGLE: u32 = 3; // single-signer entry point

pub fn cases(thorough: bool, seed: u64) -> Vec<Params> {
    let mut out = vec![];
    let shapes: &[(u16, u16, &[usize])] = if thorough { &[(2, 2, &[0, 1]), (3, 2, &[0, 2]), (3, 2, &[1, 2]), (3, 3, &[0, 1, 2]), (4, 2, &[1, 3])] } else { &[(2, 2, &[0, 1]), (3, 2, &[0, 2])] };
    for (n, t, s) in shapes {
        for root in 0..5u64 {
            for dkg in 0..2u64 {
                // DKG keys add 2 parity forks per participant: signing on DKG keys is a thorough-tier
                // case for n = 2 only (2048 paths); the DKG output key itself is V_DKG_KEY in both tiers
                if dkg == 1 && (!thorough || *n > 2 || ![ROOT_UNTWEAKED as u64, ROOT_32 as u64].contains(&root)) {
                    continue;
                }
                out.push(Params { n: *n, t: *t, ids: IdSet::Default, subset: s.to_vec(), variant: V_SIGN, aux: root | (dkg << 4), seed });
            }
        }
    }
    // other message lengths (the 2-of-2 shape): empty, short literal, 33 bytes, 1332 bytes
    for root in [ROOT_UNTWEAKED as u64, ROOT_32 as u64] {
        for mk in [1u64, 2, 4, 3] {
            if mk == 3 && !thorough && root != ROOT_UNTWEAKED as u64 {
                continue;
            }
            out.push(Params { n: 2, t: 2, ids: IdSet::Default, subset: vec![0, 1], variant: V_SIGN, aux: root | (mk << 12), seed });
        }
    }
    for root in [ROOT_UNTWEAKED as u64, ROOT_32 as u64] {
        for mode in 0..3u64 {
            out.push(Params { n: 2, t: 2, ids: IdSet::Default, subset: vec![0, 1], variant: V_CHEAT, aux: root | (mode << 4), seed });
            out.push(Params { n: 2, t: 2, ids: IdSet::Default, subset: vec![0, 1], variant: V_CHEAT, aux: root | (mode << 4) | (1 << 8), seed });
        }
    }
    for root in [ROOT_NONE as u64, ROOT_EMPTY as u64] {
        out.push(Params { n: 2, t: 2, ids: IdSet::Default, subset: vec![0, 1], variant: V_CHEAT, aux: root | (1 << 4) | (1 << 8), seed });
    }
    if thorough {
        for root in [ROOT_UNTWEAKED as u64, ROOT_32 as u64, ROOT_NONE as u64] {
            for slot in 0..3u64 {
                out.push(Params { n: 4, t: 3, ids: IdSet::Default, subset: vec![1, 2, 3], variant: V_CHEAT, aux: root | (1 << 4) | (slot << 8), seed });
            }
        }
    }
    out.push(Params { n: 2, t: 2, ids: IdSet::Default, subset: vec![], variant: V_DKG_KEY, aux: 0, seed });
    out.push(Params { n: 3, t: 2, ids: IdSet::U16(vec![7, 300, 65535]), subset: vec![], variant: V_DKG_KEY, aux: 0, seed });
    out.push(Params { n: 0, t: 0, ids: IdSet::Default, subset: vec![], variant: V_SINGLE, aux: 0, seed });
    out
}

fn root_bytes<L: Lab<TR>>(lab: &mut L, kind: u32) -> Option<Vec<u8>> {
    match kind {
        ROOT_UNTWEAKED | ROOT_NONE => None,
        ROOT_EMPTY => Some(vec![]),
        ROOT_32 => Some(lab.message("merkle_root")),
        _ => Some(b"\x01\x02\x03\x04\x05".to_vec()),
    }
}

pub fn run<L: Lab<TR>>(lab: &mut L, p: &Params) {
    if p.variant == V_SINGLE {
        lab.enter("single-signer");
        let sk = lab.nz_scalar("sk");
        let key = tr::SigningKey::from_scalar(sk).unwrap();
        let vk = tr::VerifyingKey::from(&key);
        let msg = lab.message("msg");
        let sig = key.sign(&mut *lab.rng(), &msg);
        if let Ok(bytes) = sig.serialize() {
            bip340_verify(lab, &x_of(&vk.to_element()), &msg, &bytes, "single-signer signature under x(P)");
        }
        lab.check(vk.verify(&msg, &sig).is_ok(), "the library accepts its own single-signer Taproot signature");
        lab.note(&format!("parity P={} ", is_odd(&vk.to_element()) as u8));
        lab.leave();
        return;
    }
    if p.variant == V_DKG_KEY {
        lab.enter("dkg-output-key");
        let Some(run) = dkg_parts12::<TR, L>(lab, p) else { return };
        let Some(((kps, pub0), _)) = dkg_part3_all::<TR, L>(lab, p, &run) else { return };
        let mut sum0 = ProjectivePoint::IDENTITY;
        for pk in run.r1.values() {
            sum0 = sum0 + pk.commitment().coefficients()[0].value();
        }
        // key generation outputs the key-path-only tweaked key: Q = lift_x(x(P)) + H_TapTweak(x(P))*G
        if let Some(q) = taproot_output_key(&x_of(&sum0), b"") {
            lab.eq_bytes(&x_of(&pub0.verifying_key().to_element()), &x_of(&q), "x-only group key after key generation = BIP-341 key-path-only output key of the sum of the constant terms");
        }
        for (id, kp) in kps.iter() {
            lab.eq_e(kp.verifying_share().to_element(), ProjectivePoint::GENERATOR * kp.signing_share().to_scalar(), "tweaked key package: verifying share = G * signing share");
            lab.eq_e(kp.verifying_share().to_element(), pub0.verifying_shares()[id].to_element(), "tweaked key package: verifying share = public key package entry");
            lab.eq_e(kp.verifying_key().to_element(), pub0.verifying_key().to_element(), "tweaked key package carries the tweaked group key");
        }
        lab.note(&format!("parity P={} Q={}", is_odd(&sum0) as u8, is_odd(&pub0.verifying_key().to_element()) as u8));
        lab.leave();
        return;
    }

    let root_kind = (p.aux & 0xf) as u32;
    let keys: Keys<TR> = if p.variant == V_SIGN && (p.aux >> 4) & 1 == 1 {
        match dkg_keys::<TR, L>(lab, p) {
            Some(k) => k,
            None => return,
        }
    } else {
        match dealer_keys::<TR, L>(lab, p) {
            Some(k) => k.2,
            None => return,
        }
    };
    // message kind (aux bits 12..): 0 = one 32-byte symbolic block (a sighash), 1 = empty, 2 = 15 literal
    // bytes, 3 = 1332 bytes (literal, symbolic block, literal), 4 = 33 bytes (a block and one more byte)
    let msg = match (p.aux >> 12) & 0xf {
        0 => lab.message("msg"),
        4 => {
            let mut m = lab.message("msg");
            m.push(0x42);
            m
        }
        k => scen::c01::message::<TR, L>(lab, k as u32),
    };
    let root = root_bytes(lab, root_kind);
    let internal = keys.1.verifying_key().to_element();
    let px = x_of(&internal);
    // the x-only key the signature must verify under
    let out_key: ProjectivePoint = if root_kind == ROOT_UNTWEAKED {
        match lift_x(&px) {
            Some(pp) => pp,
            None => return,
        }
    } else {
        match taproot_output_key(&px, root.as_deref().unwrap_or(b"")) {
            Some(q) => q,
            None => return,
        }
    };
    let qx = x_of(&out_key);

    let sess = open_session::<TR, L>(lab, &keys, &p.subset, msg.clone());
    lab.enter("taproot-sign");
    let mut shares = BTreeMap::new();
    for id in &sess.signers {
        let r = if root_kind == ROOT_UNTWEAKED { tr::round2::sign(&sess.package, &sess.nonces[id], &keys.0[id]) } else { tr::round2::sign_with_tweak(&sess.package, &sess.nonces[id], &keys.0[id], root.as_deref()) };
        if !lab.check(r.is_ok(), "Taproot signing succeeds for an honest signer") {
            lab.leave();
            return;
        }
        shares.insert(*id, r.unwrap());
    }
    // the public key package as the coordinator uses it for share verification
    let eff_pub = if root_kind == ROOT_UNTWEAKED { keys.1.clone() } else { keys.1.clone().tweak(root.as_deref()) };

    if p.variant == V_CHEAT {
        let mode = (p.aux >> 4) & 0xf;
        let slot = ((p.aux >> 8) & 0xf) as usize;
        let cid: Id = sess.signers[slot];
        let honest = shares[&cid].share().0;
        // replay candidates for the adversarial share: the honest value, and the share a plain RFC 9591
        // signer would send (nonces not negated / negated whatever the parity), computed from the
        // reference quantities — a counter-model that coincides with one of them is replayed as such
        let mut cands = vec![honest];
        if let Some(q_even) = lift_x(&qx) {
            let list: scen::spec::CommitmentList<TR> = sess.signers.iter().map(|id| (id.to_scalar(), sess.commitments[id].hiding().value(), sess.commitments[id].binding().value())).collect();
            if let Some(bfs) = scen::spec::compute_binding_factors::<TR>(q_even, &list, &msg) {
                let bf_vals: Vec<Scalar> = bfs.iter().map(|x| x.1).collect();
                let r_spec = scen::spec::compute_group_commitment::<TR>(&list, &bf_vals);
                let c = int_mod_n(&tagged_hash("BIP0340/challenge", &[&x_of(&r_spec), &qx, &msg]));
                let k = sess.nonces[&cid].hiding().clone().to_scalar() + sess.nonces[&cid].binding().clone().to_scalar() * bf_vals[slot];
                // honest = (+-k) + lambda*s_eff*c, so lambda*s_eff*c is one of honest -+ k
                cands.push(honest - k - k);
                cands.push(honest + k + k);
                cands.push(honest - k);
                cands.push(honest + k);
                let _ = c;
            }
        }
        let z = lab.adv_scalar_among("z'", &cands);
        shares.insert(cid, sig_share_from_scalar::<TR>(z));
        lab.set_policy(Pol::ForkAdv);
        let cd = match mode {
            0 => fc::CheaterDetection::Disabled,
            1 => fc::CheaterDetection::FirstCheater,
            _ => fc::CheaterDetection::AllCheaters,
        };
        let r = fc::aggregate_custom(&sess.package, &shares, &eff_pub, cd);
        let same = lab.holds_eq_s(z, honest);
        // standalone share verification agrees
        let sv = fc::verify_signature_share(cid, &eff_pub.verifying_shares()[&cid], &shares[&cid], &sess.package, eff_pub.verifying_key());
        lab.check(sv.is_ok() == (same == Some(true)), "share verification accepts exactly the honest share value in every parity case");
        match r {
            Ok(sig) => {
                lab.check(same == Some(true), "aggregation succeeds only with the honest share");
                if let Ok(bytes) = sig.serialize() {
                    bip340_verify(lab, &qx, &msg, &bytes, "released signature");
                }
            }
            Err(e) => {
                lab.check(same == Some(false), "aggregation fails only if the share differs");
                if mode == 0 {
                    lab.check(e.culprits().is_empty(), "detection disabled: nobody named");
                } else {
                    lab.check(e.culprits() == vec![cid], "the cheater and only the cheater is named in every parity case");
                }
            }
        }
        // the suite's own entry points give the same answer as the core aggregation on the
        // (tweaked) package: same success, same culprit
        if mode == 1 {
            let r2 = if root_kind == ROOT_UNTWEAKED { tr::aggregate(&sess.package, &shares, &keys.1) } else { tr::aggregate_with_tweak(&sess.package, &shares, &keys.1, root.as_deref()) };
            match r2 {
                Ok(sig) => {
                    lab.check(same == Some(true), "the suite's aggregation entry point succeeds only with the honest share");
                    if let Ok(bytes) = sig.serialize() {
                        bip340_verify(lab, &qx, &msg, &bytes, "signature released by the suite's aggregation entry point");
                    }
                }
                Err(e) => {
                    lab.check(same == Some(false), "the suite's aggregation entry point fails only if the share differs");
                    lab.check(e.culprits() == vec![cid], "the suite's aggregation entry point (with or without tweak) names the cheater and only the cheater");
                }
            }
        }
        if root_kind == ROOT_UNTWEAKED {
            lab.note(&format!("parity P={}", is_odd(&internal) as u8));
        } else {
            lab.note(&format!("parity P={} Q={}", is_odd(&internal) as u8, is_odd(&eff_pub.verifying_key().to_element()) as u8));
        }
        lab.leave();
        return;
    }

    for id in &sess.signers {
        let r = fc::verify_signature_share(*id, &eff_pub.verifying_shares()[id], &shares[id], &sess.package, eff_pub.verifying_key());
        lab.check(r.is_ok(), "every honest Taproot share passes share verification");
    }
    // ---- every share is, value for value, the RFC 9591 share computed on the BIP-340-normalised
    // quantities: binding factors over the even-y output key (02 || x), challenge = BIP-340
    // challenge over x(R), x(Q); secret share negated for an odd internal key, offset by the tweak,
    // negated again for an odd output key; nonces negated for an odd group commitment
    if let Some(q_even) = lift_x(&qx) {
        let list: scen::spec::CommitmentList<TR> = sess.signers.iter().map(|id| (id.to_scalar(), sess.commitments[id].hiding().value(), sess.commitments[id].binding().value())).collect();
        if let Some(bfs) = scen::spec::compute_binding_factors::<TR>(q_even, &list, &msg) {
            let bf_vals: Vec<Scalar> = bfs.iter().map(|x| x.1).collect();
            let r_spec = scen::spec::compute_group_commitment::<TR>(&list, &bf_vals);
            let r_odd = is_odd(&r_spec);
            let c = int_mod_n(&tagged_hash("BIP0340/challenge", &[&x_of(&r_spec), &qx, &msg]));
            let xs: Vec<Scalar> = sess.signers.iter().map(|i| i.to_scalar()).collect();
            let p_odd = is_odd(&internal);
            // the output key before its own normalisation
            let (q_raw_odd, t) = if root_kind == ROOT_UNTWEAKED { (p_odd, Scalar::ZERO) } else { (is_odd(&out_key), int_mod_n(&tagged_hash("TapTweak", &[&px, root.as_deref().unwrap_or(b"")]))) };
            for (j, id) in sess.signers.iter().enumerate() {
                let Some(lambda) = scen::spec::derive_interpolating_value::<TR>(&xs, id.to_scalar()) else { continue };
                let s_i = keys.0[id].signing_share().to_scalar();
                let d = if root_kind == ROOT_UNTWEAKED { s_i } else { (if p_odd { -s_i } else { s_i }) + t };
                let s_eff = if q_raw_odd { -d } else { d };
                let (hn, bn) = (sess.nonces[id].hiding().clone().to_scalar(), sess.nonces[id].binding().clone().to_scalar());
                let k = hn + bn * bf_vals[j];
                let k = if r_odd { -k } else { k };
                let z_spec = k + lambda * s_eff * c;
                lab.eq_s(shares[id].share().0, z_spec, "signature share = RFC 9591 share over the BIP-340-normalised key, commitment and challenge (binding factors hash the even-y output key)");
            }
        }
    }
    let r = if root_kind == ROOT_UNTWEAKED { tr::aggregate(&sess.package, &shares, &keys.1) } else { tr::aggregate_with_tweak(&sess.package, &shares, &keys.1, root.as_deref()) };
    if !lab.check(r.is_ok(), "Taproot aggregation succeeds") {
        lab.leave();
        return;
    }
    let sig = r.unwrap();
    let Ok(bytes) = sig.serialize() else {
        lab.check(false, "signature serialises");
        lab.leave();
        return;
    };
    bip340_verify(lab, &qx, &msg, &bytes, "aggregate signature under the BIP-341 output key");
    lab.check(eff_pub.verifying_key().verify(&msg, &sig).is_ok(), "VerifyingKey::verify under the (tweaked) key accepts");
    // decoded copy
    if let Ok(s2) = tr::Signature::deserialize(&bytes) {
        if let Ok(b2) = s2.serialize() {
            lab.eq_bytes(&b2, &bytes, "64-byte signature encoding round-trips");
        }
    }
    if root_kind != ROOT_UNTWEAKED {
        // must not verify under the untweaked key
        if let Some((rr, rl)) = bip340_residual(&px, &msg, &bytes) {
            lab.ne_generic_e(rr, rl, "with a tweak requested the signature does not verify under the untweaked key");
        }
    }
    let r_elem = *sig.R();
    let r_par = is_odd(&fc_group_commitment(&sess, &eff_pub).unwrap_or(r_elem)) as u8;
    if root_kind == ROOT_UNTWEAKED {
        lab.note(&format!("parity P={} R={}", is_odd(&internal) as u8, r_par));
    } else {
        lab.note(&format!("parity P={} Q={} R={}", is_odd(&internal) as u8, is_odd(&eff_pub.verifying_key().to_element()) as u8, r_par));
    }
    lab.leave();
}

/// the (un-normalised) group commitment of the session, to report its parity
fn fc_group_commitment(sess: &Session<TR>, eff_pub: &tr::keys::PublicKeyPackage) -> Option<ProjectivePoint> {
    use tr::keys::EvenY;
    let pk = eff_pub.clone().into_even_y(None);
    let bfl = fc::compute_binding_factor_list(&sess.package, pk.verifying_key(), &[]).ok()?;
    fc::compute_group_commitment(&sess.package, &bfl).ok().map(|g| g.to_element())
}

// ------------------------------------------------------------------ pinning the transcription

/// One signer of a pinned vector: identifier, secret share, nonces, commitments and the expected
/// binding factor and signature share (all in the suite's encodings).
pub struct PinSigner {
    pub id: u16,
    pub share: [u8; 32],
    pub hiding: [u8; 32],
    pub binding: [u8; 32],
    pub hiding_c: [u8; 33],
    pub binding_c: [u8; 33],
    pub want_bf: [u8; 32],
    pub want_share: [u8; 32],
}

fn dec_s(b: &[u8; 32]) -> Option<Scalar> {
    scalar_from_bytes::<TR>(b)
}
fn dec_e(b: &[u8; 33]) -> Option<ProjectivePoint> {
    use fc::Group;
    <<TR as fc::Ciphersuite>::Group as Group>::deserialize(b).ok()
}

/// The reference computation of `run` (RFC 9591 over the BIP-340-normalised quantities, untweaked
/// entry points) on the repository's own Taproot vector: binding factors, shares and the final
/// signature must come out byte for byte, and the BIP-340 verifier transcription must accept the
/// signature and reject it with one bit flipped. Returns (values compared, mismatches).
pub fn pin_reference(group_key: &[u8; 33], msg: &[u8], signers: &[PinSigner], sig: &[u8; 64]) -> (usize, Vec<String>) {
    let mut n = 0usize;
    let mut bad = vec![];
    let Some(p) = dec_e(group_key) else { return (0, vec!["group key does not decode".into()]) };
    let px = x_of(&p);
    let Some(q_even) = lift_x(&px) else { return (0, vec!["group key does not lift".into()]) };
    let p_odd = is_odd(&p);
    let mut list: scen::spec::CommitmentList<TR> = vec![];
    for s in signers {
        let (Some(h), Some(b)) = (dec_e(&s.hiding_c), dec_e(&s.binding_c)) else { return (0, vec!["commitment does not decode".into()]) };
        list.push((Id::try_from(s.id).unwrap().to_scalar(), h, b));
    }
    let Some(bfs) = scen::spec::compute_binding_factors::<TR>(q_even, &list, msg) else { return (0, vec!["binding factors".into()]) };
    let bf_vals: Vec<Scalar> = bfs.iter().map(|x| x.1).collect();
    for (s, bf) in signers.iter().zip(bf_vals.iter()) {
        n += 1;
        if ser_s::<TR>(bf) != s.want_bf.to_vec() {
            bad.push(format!("binding factor of signer {}", s.id));
        }
    }
    let r_spec = scen::spec::compute_group_commitment::<TR>(&list, &bf_vals);
    let r_odd = is_odd(&r_spec);
    let c = int_mod_n(&tagged_hash("BIP0340/challenge", &[&x_of(&r_spec), &px, msg]));
    let xs: Vec<Scalar> = list.iter().map(|x| x.0).collect();
    let mut z = Scalar::ZERO;
    for (j, s) in signers.iter().enumerate() {
        let (Some(sh), Some(hn), Some(bn)) = (dec_s(&s.share), dec_s(&s.hiding), dec_s(&s.binding)) else { return (n, vec!["scalar does not decode".into()]) };
        let Some(lambda) = scen::spec::derive_interpolating_value::<TR>(&xs, xs[j]) else { return (n, vec!["lambda".into()]) };
        let s_eff = if p_odd { -sh } else { sh };
        let k = hn + bn * bf_vals[j];
        let k = if r_odd { -k } else { k };
        let zi = k + lambda * s_eff * c;
        n += 1;
        if ser_s::<TR>(&zi) != s.want_share.to_vec() {
            bad.push(format!("signature share of signer {}", s.id));
        }
        z = z + zi;
    }
    let mut got = x_of(&r_spec).to_vec();
    got.extend_from_slice(&ser_s::<TR>(&z));
    n += 1;
    if got != sig.to_vec() {
        bad.push("final 64-byte signature".into());
    }
    n += 2;
    if !bip340_accepts(&px, msg, sig) {
        bad.push("BIP-340 verifier transcription rejects the vector's signature".into());
    }
    let mut flipped = *sig;
    flipped[40] ^= 1;
    if bip340_accepts(&px, msg, &flipped) {
        bad.push("BIP-340 verifier transcription accepts a modified signature".into());
    }
    (n, bad)
}

/// BIP-340 Verify as a plain predicate (concrete use)
pub fn bip340_accepts(pk_x: &[u8; 32], msg: &[u8], sig: &[u8; 64]) -> bool {
    match bip340_residual(pk_x, msg, sig) {
        Some((a, b)) => a == b,
        None => false,
    }
}

/// x-only output key of BIP-341 for an internal key and an optional merkle root
pub fn bip341_output_x(internal_x: &[u8; 32], root: &[u8]) -> Option<[u8; 32]> {
    taproot_output_key(internal_x, root).map(|q| x_of(&q))
}
