//! C01 — any t-or-more honest signers produce a signature that verifies as a plain one.
use crate::lab::*;
use crate::util::*;
use frost_core as fc;
use frost_core::{Ciphersuite, Field, Group};

pub fn cases(thorough: bool, seed: u64) -> Vec<Params> {
    let mut out = vec![];
    for (n, t) in crate::nt_pairs(thorough) {
        for (k, ids) in crate::id_sets(n, thorough, seed).into_iter().enumerate() {
            // every subset for the default identifier set; for the other identifier sets the
            // subsets of minimal and maximal size (Lagrange constants depend on the values)
            let subs = if k == 0 || n <= 4 {
                subsets(n as usize, t as usize, n as usize)
            } else {
                let mut s = subsets(n as usize, t as usize, t as usize);
                s.extend(subsets(n as usize, n as usize, n as usize));
                s
            };
            for (j, s) in subs.into_iter().enumerate() {
                // variant bit 0: keys from DKG instead of dealer; bits 1..: message kind
                let dkg = (j + k) % 3 == 2 && n <= 5;
                let msgk = ((j + k) % 4) as u32;
                out.push(Params { n, t, ids: ids.clone(), subset: s, variant: (dkg as u32) | (msgk << 1), aux: 0, seed });
            }
        }
    }
    // more than eight signers: the full set, a t-subset from the top, a non-prefix (t+1)-subset
    for (n, t) in crate::large_pairs(thorough) {
        for (k, ids) in [IdSet::Default, IdSet::Wide(seed)].into_iter().enumerate() {
            let mut subs: Vec<Vec<usize>> = vec![(0..n as usize).collect()];
            if t < n {
                subs.push(((n - t) as usize..n as usize).collect());
                subs.push((0..n as usize).filter(|i| *i != 1).take(t as usize + 1).collect());
            }
            for (j, s) in subs.into_iter().enumerate() {
                if s.len() > 12 && k == 1 {
                    continue;
                }
                out.push(Params { n, t, ids: ids.clone(), subset: s, variant: (((j + k) % 4) as u32) << 1, aux: 0, seed });
            }
        }
    }
    // dense-constant runs: binding factors, nonces and coefficients are structured / pseudo-random
    // full-width constants, so the real NAF multiscalar code recodes dense bit patterns
    // (sampling over the scalars of that one kernel, stated as such)
    for (n, t) in [(2u16, 2u16), (3, 2), (4, 3), (5, 3), (7, 5)] {
        if n > 5 && !thorough {
            continue;
        }
        for off in 0..(if thorough { 18u64 } else { 6 }) {
            out.push(Params { n, t, ids: IdSet::Default, subset: (0..t as usize).collect(), variant: 0x100, aux: 100 + off * 3, seed });
            out.push(Params { n, t, ids: IdSet::Wide(seed), subset: ((n - t) as usize..n as usize).collect(), variant: 0x100, aux: off, seed: seed + off });
        }
    }
    out
}

pub fn message<C: Ciphersuite, L: Lab<C>>(lab: &mut L, kind: u32) -> Vec<u8> {
    match kind {
        0 => lab.message("msg"),
        1 => vec![],
        2 => b"message to sign".to_vec(),
        _ => {
            // long: a free block surrounded by literal bytes
            let mut m = vec![0x5au8; 300];
            m.extend(lab.message("msg"));
            m.extend(vec![0xa5u8; 1000]);
            m
        }
    }
}

pub fn run<C: Ciphersuite, L: Lab<C>>(lab: &mut L, p: &Params) {
    let keys = if p.variant & 1 == 1 && p.variant & 0x100 == 0 {
        match dkg_keys::<C, L>(lab, p) {
            Some(k) => k,
            None => return,
        }
    } else {
        match dealer_keys::<C, L>(lab, p) {
            Some(k) => k.2,
            None => return,
        }
    };
    let msg = message::<C, L>(lab, (p.variant & 0xff) >> 1);
    let sess = open_session::<C, L>(lab, &keys, &p.subset, msg.clone());
    let Some(shares) = sign_all::<C, L>(lab, &keys, &sess) else { return };
    let vk = *keys.1.verifying_key();

    lab.enter("verify_signature_share");
    for id in &sess.signers {
        let r = fc::verify_signature_share(*id, &keys.1.verifying_shares()[id], &shares[id], &sess.package, &vk);
        lab.check(r.is_ok(), "every honest share passes share verification");
    }
    lab.leave();

    lab.enter("aggregate");
    let r = fc::aggregate(&sess.package, &shares, &keys.1);
    if !lab.check(r.is_ok(), "aggregate succeeds on honest shares") {
        lab.leave();
        return;
    }
    let sig = r.unwrap();
    for (mode, name) in [
        (fc::CheaterDetection::Disabled, "Disabled"),
        (fc::CheaterDetection::FirstCheater, "FirstCheater"),
        (fc::CheaterDetection::AllCheaters, "AllCheaters"),
    ] {
        let r2 = fc::aggregate_custom(&sess.package, &shares, &keys.1, mode);
        if lab.check(r2.is_ok(), &format!("aggregate_custom({name}) succeeds on honest shares")) {
            let s2 = r2.unwrap();
            lab.eq_e(*s2.R(), *sig.R(), "all detection modes yield the same R");
            lab.eq_s(*s2.z(), *sig.z(), "all detection modes yield the same z");
        }
    }
    lab.leave();

    lab.enter("verify");
    spec_verify::<C, L>(lab, vk.to_element(), &msg, *sig.R(), *sig.z(), "signature satisfies the RFC 9591 verification equation");
    let r = vk.verify(&msg, &sig);
    lab.check(r.is_ok(), "VerifyingKey::verify accepts the aggregate");
    // through the wire encoding
    match sig.serialize() {
        Ok(bytes) => match fc::Signature::<C>::deserialize(&bytes) {
            Ok(s2) => {
                lab.eq_e(*s2.R(), *sig.R(), "signature R survives its encoding");
                lab.eq_s(*s2.z(), *sig.z(), "signature z survives its encoding");
                lab.check(vk.verify(&msg, &s2).is_ok(), "decoded signature verifies");
            }
            Err(_) => {
                lab.check(false, "serialised signature decodes");
            }
        },
        Err(_) => {
            lab.check(false, "signature serialises");
        }
    }
    // z is the sum of the shares and R the group commitment: (ID) against the definition
    let mut zsum = zero::<C>();
    for s in shares.values() {
        zsum = zsum + s.share().0;
    }
    lab.eq_s(zsum, *sig.z(), "z equals the sum of the signature shares");
    let _ = <<C::Group as Group>::Field as Field>::zero();
    lab.leave();
}
