//! C02 — every intermediate and final value is bit-exact with RFC 9591 (differential against
//! the transcription in `spec.rs`).
use crate::lab::*;
use crate::spec;
use crate::util::*;
use frost_core as fc;
use frost_core::{Ciphersuite, Identifier};
use std::collections::BTreeSet;

const V_FLOW: u32 = 0; // whole signing flow against the transcription (variant bits 1..: message kind)
const V_SINGLE: u32 = 1; // single-signer entry point
const V_IDENT: u32 = 2; // u16 -> identifier equals the integer-to-scalar map

pub fn cases(thorough: bool, seed: u64) -> Vec<Params> {
    let mut out = vec![];
    for (n, t) in crate::nt_pairs(thorough) {
        for (k, ids) in crate::id_sets(n, thorough, seed).into_iter().enumerate() {
            let mut subs = subsets(n as usize, t as usize, n as usize);
            if k > 0 && n > 3 {
                let a = subs[0].clone();
                let b = subs[subs.len() - 1].clone();
                let c = subs[subs.len() / 2].clone();
                subs = vec![a, c, b];
            }
            for (j, s) in subs.into_iter().enumerate() {
                out.push(Params { n, t, ids: ids.clone(), subset: s, variant: V_FLOW, aux: ((j + k) % 4) as u64, seed });
            }
        }
    }
    // large signer sets (encodings and loops specialised by size): everybody signs, and a t-subset from the top
    for (n, t) in crate::large_pairs(thorough) {
        for (k, ids) in [IdSet::Default, IdSet::Wide(seed)].into_iter().enumerate() {
            if k == 1 && n > 17 {
                continue;
            }
            out.push(Params { n, t, ids: ids.clone(), subset: (0..n as usize).collect(), variant: V_FLOW, aux: (k as u64 + 1) % 4, seed });
            if t < n {
                out.push(Params { n, t, ids: ids.clone(), subset: ((n - t) as usize..n as usize).collect(), variant: V_FLOW, aux: (k as u64 + 2) % 4, seed });
            }
        }
    }
    for k in 0..4u64 {
        out.push(Params { n: 2, t: 2, ids: IdSet::Default, subset: vec![], variant: V_SINGLE, aux: k, seed });
    }
    for (i, v) in [1u16, 2, 3, 127, 128, 255, 256, 257, 4095, 4096, 32767, 32768, 65534, 65535].iter().enumerate() {
        out.push(Params { n: *v, t: 0, ids: IdSet::Default, subset: vec![], variant: V_IDENT, aux: i as u64, seed });
    }
    out
}

pub fn run<C: Ciphersuite, L: Lab<C>>(lab: &mut L, p: &Params) {
    match p.variant {
        V_IDENT => {
            lab.enter("identifier");
            let id = Identifier::<C>::try_from(p.n);
            if lab.check(id.is_ok(), "non-zero u16 converts to an identifier") {
                let id = id.unwrap();
                lab.eq_s(id.to_scalar(), u64_scalar::<C>(p.n as u64), "identifier scalar = the integer n in the scalar field");
                // Identifier::serialize is SerializeScalar of that scalar, and it decodes back
                lab.eq_bytes(&id.serialize(), &ser_s::<C>(&u64_scalar::<C>(p.n as u64)), "identifier encoding = SerializeScalar(n)");
                let back = Identifier::<C>::deserialize(&id.serialize());
                lab.check(matches!(back, Ok(b) if b == id), "identifier encoding decodes to the same identifier");
            }
            lab.check(Identifier::<C>::try_from(0u16).is_err(), "zero is not an identifier");
            lab.leave();
        }
        V_SINGLE => {
            lab.enter("single-signer");
            let sk = lab.nz_scalar("sk");
            let key = fc::SigningKey::<C>::from_scalar(sk).unwrap();
            let vk = fc::VerifyingKey::<C>::from(&key);
            lab.eq_e(vk.to_element(), g::<C>() * sk, "verifying key = G * signing key");
            let msg = crate::c01::message::<C, L>(lab, p.aux as u32);
            let sig = key.sign(&mut *lab.rng(), &msg);
            spec_verify::<C, L>(lab, vk.to_element(), &msg, *sig.R(), *sig.z(), "SigningKey::sign output satisfies the RFC verification equation");
            lab.check(vk.verify(&msg, &sig).is_ok(), "the library accepts its own single-signer signature");
            // the independent signer (RFC 9591 Appendix / prime-order Schnorr)
            let k = lab.nz_scalar("k_spec");
            let r = g::<C>() * k;
            if let Some(c) = spec::compute_challenge::<C>(r, vk.to_element(), &msg) {
                let z = k + c * sk;
                let sig2 = fc::Signature::<C>::new(r, z);
                lab.check(vk.verify(&msg, &sig2).is_ok(), "the library accepts a signature made by the independent signer");
                if let Ok(bytes) = sig2.serialize() {
                    let mut want = spec::ser_e::<C>(&r).unwrap_or_default();
                    want.extend_from_slice(&ser_s::<C>(&z));
                    lab.eq_bytes(&bytes, &want, "signature encoding = SerializeElement(R) || SerializeScalar(z)");
                }
            }
            lab.leave();
        }
        _ => flow::<C, L>(lab, p),
    }
}

fn flow<C: Ciphersuite, L: Lab<C>>(lab: &mut L, p: &Params) {
    let Some((_sk, _sh, keys)) = dealer_keys::<C, L>(lab, p) else { return };
    let vk = *keys.1.verifying_key();
    let pk = vk.to_element();
    let msg = crate::c01::message::<C, L>(lab, p.aux as u32);
    let draws_before = lab.rng_requests().len();
    let sess = open_session::<C, L>(lab, &keys, &p.subset, msg.clone());

    if !lab.symbolic() {
        // concrete runs on the real suites: H1..H5 on inputs of many lengths (block and rate
        // boundaries of SHA-256 / SHA-512 / SHAKE256 included) against the independent transcription
        lab.enter("hash wiring vs RFC 6");
        for len in [0usize, 1, 31, 32, 33, 55, 56, 63, 64, 65, 100, 111, 112, 127, 128, 129, 135, 136, 137, 255, 256, 257, 271, 272, 273, 500, 543, 544, 545, 600, 1087, 1088, 1089, 1332, 4096] {
            let input: Vec<u8> = (0..len).map(|i| (i as u8).wrapping_mul(31).wrapping_add(len as u8)).collect();
            lab.ref_hash(1, &input, &ser_s::<C>(&C::H1(&input)), &format!("H1 on {len} bytes = independent RFC 9591 transcription"));
            lab.ref_hash(2, &input, &ser_s::<C>(&C::H2(&input)), &format!("H2 on {len} bytes = independent RFC 9591 transcription"));
            lab.ref_hash(3, &input, &ser_s::<C>(&C::H3(&input)), &format!("H3 on {len} bytes = independent RFC 9591 transcription"));
            lab.ref_hash(4, &input, C::H4(&input).as_ref(), &format!("H4 on {len} bytes = independent RFC 9591 transcription"));
            lab.ref_hash(5, &input, C::H5(&input).as_ref(), &format!("H5 on {len} bytes = independent RFC 9591 transcription"));
        }
        // the suite's challenge computation (possibly overridden per suite) on messages of many lengths:
        // challenge(R, PK, m) = H2(enc(R) || enc(PK) || m), H2 from the independent transcription
        for len in [0usize, 1, 32, 33, 100, 1000, 4095, 4096, 4097, 6000, 10000] {
            let m: Vec<u8> = (0..len).map(|i| (i as u8).wrapping_mul(7).wrapping_add(len as u8)).collect();
            let r = g::<C>();
            if let (Ok(c), Some(rb), Some(pb)) = (<C as Ciphersuite>::challenge(&r, &vk, &m), spec::ser_e::<C>(&r), spec::ser_e::<C>(&pk)) {
                let mut pre = rb;
                pre.extend_from_slice(&pb);
                pre.extend_from_slice(&m);
                lab.ref_hash(2, &pre, &ser_s::<C>(&c.to_scalar()), &format!("challenge on a {len}-byte message = H2(enc(R) || enc(PK) || msg) (independent RFC 9591 transcription)"));
            }
        }
        lab.leave();
    }
    lab.enter("round1 vs RFC 4.1");
    // commit draws 32 bytes for the hiding nonce then 32 for the binding nonce, per signer in order
    let mut spec_nonces = vec![];
    // the bytes the source handed out during the commits, as one stream: how they are requested (two
    // requests of 32, one of 64, ...) is not prescribed; each commit uses the next 32 bytes for the
    // hiding nonce and the 32 after them for the binding nonce
    let mut drawn: Vec<u8> = vec![];
    {
        let n = lab.rng_requests().len();
        for k in draws_before..n {
            if let Some(b) = lab.draw_bytes(k) {
                drawn.extend(b);
            }
        }
    }
    for (j, id) in sess.signers.iter().enumerate() {
        let share = keys.0[id].signing_share().to_scalar();
        if drawn.len() < 64 * (j + 1) {
            lab.check(false, "64 random bytes per commit");
            lab.leave();
            return;
        }
        let (hb, bb) = (drawn[64 * j..64 * j + 32].to_vec(), drawn[64 * j + 32..64 * j + 64].to_vec());
        let (hn, bn) = (spec::nonce_generate::<C>(&hb, share), spec::nonce_generate::<C>(&bb, share));
        let nn = &sess.nonces[id];
        lab.eq_s(nn.hiding().to_scalar(), hn, "hiding nonce = H3(random_bytes || SerializeScalar(share))");
        lab.eq_s(nn.binding().to_scalar(), bn, "binding nonce = H3(random_bytes || SerializeScalar(share))");
        let cc = &sess.commitments[id];
        lab.eq_e(cc.hiding().value(), g::<C>() * hn, "hiding commitment = G * hiding nonce");
        lab.eq_e(cc.binding().value(), g::<C>() * bn, "binding commitment = G * binding nonce");
        spec_nonces.push((hn, bn));
        // H3 of the suite against the independent transcription (concrete runs only)
        let mut pre = hb.clone();
        pre.extend_from_slice(&ser_s::<C>(&share));
        lab.ref_hash(3, &pre, &ser_s::<C>(&C::H3(&pre)), "H3 (nonce) of the suite = independent RFC 9591 transcription");
    }
    lab.leave();

    // the RFC's commitment list: sorted ascending by identifier *as integers* — ordered here
    // independently of the library's `Ord for Identifier`
    let mut numeric: Vec<Identifier<C>> = sess.signers.clone();
    numeric.sort_by(|a, b| lab.cmp_scalars(a.to_scalar(), b.to_scalar()));
    lab.check(numeric == sess.signers, "participants are processed in ascending numeric identifier order");
    let list: spec::CommitmentList<C> = numeric.iter().map(|id| (id.to_scalar(), sess.commitments[id].hiding().value(), sess.commitments[id].binding().value())).collect();

    lab.enter("binding factors vs RFC 4.3/4.4");
    let enc_real = fc::round1::encode_group_commitments(sess.package.signing_commitments());
    let enc_spec = spec::encode_group_commitment_list::<C>(&list);
    let (Ok(enc_real), Some(enc_spec)) = (enc_real, enc_spec) else {
        lab.check(false, "commitment list encodes");
        lab.leave();
        return;
    };
    lab.eq_bytes(&enc_real, &enc_spec, "encode_group_commitment_list: identifier || hiding || binding per participant, ascending");
    let Some(spec_bfs) = spec::compute_binding_factors::<C>(pk, &list, &msg) else {
        lab.check(false, "spec binding factors");
        lab.leave();
        return;
    };
    // H1, H4, H5 of the suite against the independent transcription (concrete runs only)
    lab.ref_hash(4, &msg, C::H4(&msg).as_ref(), "H4 (message) of the suite = independent RFC 9591 transcription");
    lab.ref_hash(5, &enc_spec, C::H5(&enc_spec).as_ref(), "H5 (commitment list) of the suite = independent RFC 9591 transcription");
    for (input, bf) in spec_bfs.iter() {
        lab.ref_hash(1, input, &ser_s::<C>(bf), "H1 (binding factor) of the suite = independent RFC 9591 transcription");
    }
    let pre = sess.package.binding_factor_preimages(&vk, &[]);
    let bfl = fc::compute_binding_factor_list(&sess.package, &vk, &[]);
    let (Ok(pre), Ok(bfl)) = (pre, bfl) else {
        lab.check(false, "binding factor computation succeeds");
        lab.leave();
        return;
    };
    lab.check(pre.len() == list.len(), "one binding factor per participant");
    for (j, id) in sess.signers.iter().enumerate() {
        if let Some((pid, bytes)) = pre.get(j) {
            lab.check(pid == id, "binding factor preimages are listed in ascending identifier order");
            lab.eq_bytes(bytes, &spec_bfs[j].0, "rho_input = enc(PK) || H4(msg) || H5(encoded commitments) || SerializeScalar(identifier)");
        }
        match bfl.get(id) {
            Some(bf) => {
                lab.eq_bytes(&bf.serialize(), &ser_s::<C>(&spec_bfs[j].1), "binding factor = H1(rho_input)");
            }
            None => {
                lab.check(false, "binding factor present for every participant");
            }
        }
    }
    lab.leave();

    lab.enter("group commitment / challenge / lambda vs RFC 4.2,4.5,4.6");
    let bf_vals: Vec<_> = spec_bfs.iter().map(|x| x.1).collect();
    let r_spec = spec::compute_group_commitment::<C>(&list, &bf_vals);
    let Ok(gc) = fc::compute_group_commitment(&sess.package, &bfl) else {
        lab.check(false, "group commitment computes");
        lab.leave();
        return;
    };
    let r_real = gc.to_element();
    lab.eq_e(r_real, r_spec, "group commitment = sum(hiding_i + binding_factor_i * binding_i)");
    let c_spec = spec::compute_challenge::<C>(r_spec, pk, &msg);
    let c_real = <C as Ciphersuite>::challenge(&r_real, &vk, &msg);
    let (Some(c_spec), Ok(c_real)) = (c_spec, c_real) else {
        lab.check(false, "challenge computes");
        lab.leave();
        return;
    };
    lab.eq_s(c_real.to_scalar(), c_spec, "challenge = H2(enc(R) || enc(PK) || msg)");
    if let (Some(rb), Some(pb)) = (spec::ser_e::<C>(&r_spec), spec::ser_e::<C>(&pk)) {
        let mut pre = rb;
        pre.extend_from_slice(&pb);
        pre.extend_from_slice(&msg);
        lab.ref_hash(2, &pre, &ser_s::<C>(&c_spec), "H2 (challenge) of the suite = independent RFC 9591 transcription");
    }
    let xs: Vec<_> = sess.signers.iter().map(|i| i.to_scalar()).collect();
    let idset: BTreeSet<Identifier<C>> = sess.signers.iter().copied().collect();
    let mut lambdas = vec![];
    for id in &sess.signers {
        let l_spec = spec::derive_interpolating_value::<C>(&xs, id.to_scalar());
        let l_real = fc::compute_lagrange_coefficient(&idset, None, *id);
        match (l_spec, l_real) {
            (Some(a), Ok(b)) => {
                lab.eq_s(b, a, "interpolating value = prod x_j / prod (x_j - x_i)");
                lambdas.push(a);
            }
            _ => {
                lab.check(false, "interpolating value computes");
                lab.leave();
                return;
            }
        }
    }
    lab.leave();

    lab.enter("shares and signature vs RFC 5.2/5.3");
    let Some(shares) = sign_all::<C, L>(lab, &keys, &sess) else {
        lab.leave();
        return;
    };
    let mut zsum = zero::<C>();
    for (j, id) in sess.signers.iter().enumerate() {
        let z_spec = spec::sign_share::<C>(spec_nonces[j].0, spec_nonces[j].1, bf_vals[j], lambdas[j], keys.0[id].signing_share().to_scalar(), c_spec);
        lab.eq_s(shares[id].share().0, z_spec, "sig_share = hiding + binding*rho + lambda*sk_i*challenge");
        lab.eq_bytes(&shares[id].serialize(), &ser_s::<C>(&z_spec), "signature share encoding = SerializeScalar(sig_share)");
        zsum = zsum + z_spec;
    }
    match fc::aggregate(&sess.package, &shares, &keys.1) {
        Ok(sig) => {
            lab.eq_e(*sig.R(), r_spec, "signature R = group commitment");
            lab.eq_s(*sig.z(), zsum, "signature z = sum of the signature shares");
            if let (Ok(bytes), Some(rb)) = (sig.serialize(), spec::ser_e::<C>(&r_spec)) {
                let mut want = rb;
                want.extend_from_slice(&ser_s::<C>(&zsum));
                lab.eq_bytes(&bytes, &want, "signature encoding = SerializeElement(R) || SerializeScalar(z)");
            }
        }
        Err(_) => {
            lab.check(false, "aggregate succeeds");
        }
    }
    lab.leave();
}
