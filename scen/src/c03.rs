//! C03 — fewer than the threshold of key holders can neither sign nor recover the key.
use crate::lab::*;
use crate::util::*;
use frost_core as fc;
use frost_core::keys::{KeyPackage, PublicKeyPackage};
use frost_core::{Ciphersuite, Identifier};
use std::collections::BTreeMap;

const V_REFUSE: u32 = 0; // honest min_signers: deterministic refusals
const V_LIE: u32 = 1; // every cooperating party lowers min_signers to the coalition size

pub fn cases(thorough: bool, seed: u64) -> Vec<Params> {
    let mut out = vec![];
    for (n, t) in crate::nt_pairs(thorough) {
        for (k, ids) in [IdSet::Default, IdSet::Wide(seed), IdSet::U16(u16_extreme_set(n))].into_iter().enumerate() {
            let mut subs = subsets(n as usize, 1, t as usize - 1);
            if k > 0 || n > 5 {
                // other identifier sets / large groups: the largest coalitions only (size t-1), first and last
                let all: Vec<Vec<usize>> = subs.iter().filter(|s| s.len() == t as usize - 1).cloned().collect();
                subs = vec![all[0].clone()];
                if all.len() > 1 {
                    subs.push(all[all.len() - 1].clone());
                }
            }
            for s in subs {
                for v in [V_REFUSE, V_LIE] {
                    out.push(Params { n, t, ids: ids.clone(), subset: s.clone(), variant: v, aux: 0, seed });
                }
            }
        }
    }
    out
}

pub fn run<C: Ciphersuite, L: Lab<C>>(lab: &mut L, p: &Params) {
    let Some((sk, _sh, keys)) = dealer_keys::<C, L>(lab, p) else { return };
    let ids: Vec<Identifier<C>> = keys.0.keys().copied().collect();
    let coalition: Vec<Identifier<C>> = p.subset.iter().map(|i| ids[*i]).collect();
    let k = coalition.len();
    let msg = lab.message("msg");
    let vk = *keys.1.verifying_key();

    if p.variant == V_REFUSE {
        // below the threshold nothing is learnt: the coalition's shares are an invertible image of
        // as many independent coefficient draws (the polynomial has t-1 independent non-constant
        // coefficients, not merely degree t-1)
        lab.enter("secrecy");
        let shares: Vec<_> = coalition.iter().map(|i| keys.0[i].signing_share().to_scalar()).collect();
        lab.jointly_uniform(&shares, "the shares of fewer than t holders are jointly uniform whatever the secret (full-rank image of independent coefficient draws)");
        lab.leave();
        lab.enter("refusals");
        let sess = open_session::<C, L>(lab, &keys, &p.subset, msg.clone());
        for id in &coalition {
            let r = fc::round2::sign(&sess.package, &sess.nonces[id], &keys.0[id]);
            lab.check(r.is_err(), "a signer refuses a signing package with fewer than t participants");
        }
        let mut fake = BTreeMap::new();
        for (j, id) in coalition.iter().enumerate() {
            fake.insert(*id, sig_share_from_scalar::<C>(lab.adv_scalar(&format!("z{j}"))));
        }
        for m in [fc::CheaterDetection::Disabled, fc::CheaterDetection::FirstCheater, fc::CheaterDetection::AllCheaters] {
            let r = fc::aggregate_custom(&sess.package, &fake, &keys.1, m);
            lab.check(r.is_err(), "the coordinator refuses to aggregate fewer than t shares");
        }
        let kps: Vec<KeyPackage<C>> = coalition.iter().map(|i| keys.0[i].clone()).collect();
        let r = fc::keys::reconstruct(&kps);
        lab.check(r.is_err(), "reconstruct refuses fewer than t shares");
        lab.leave();
        return;
    }

    // everybody in the coalition lies about the threshold
    lab.enter("lowered-threshold");
    let kk = k as u16;
    let mut lying = BTreeMap::new();
    for id in &coalition {
        let kp = &keys.0[id];
        lying.insert(*id, KeyPackage::new(*id, *kp.signing_share(), *kp.verifying_share(), *kp.verifying_key(), kk));
    }
    let lying_pub = PublicKeyPackage::new(keys.1.verifying_shares().clone(), vk, Some(kk));
    let lk: Keys<C> = (lying.clone(), lying_pub.clone());
    let all_idx: Vec<usize> = (0..k).collect();
    let sess = open_session::<C, L>(lab, &lk, &all_idx, msg.clone());
    let mut shares = BTreeMap::new();
    let mut signed = true;
    for id in &coalition {
        match fc::round2::sign(&sess.package, &sess.nonces[id], &lying[id]) {
            Ok(s) => {
                shares.insert(*id, s);
            }
            Err(_) => {
                signed = false; // refusing is a permitted outcome
            }
        }
    }
    if signed {
        for (m, name) in [(fc::CheaterDetection::Disabled, "Disabled"), (fc::CheaterDetection::FirstCheater, "FirstCheater"), (fc::CheaterDetection::AllCheaters, "AllCheaters")] {
            let mk = lab.mark();
            let r = fc::aggregate_custom(&sess.package, &shares, &lying_pub, m);
            lab.expect_reject(mk, r.is_ok(), &format!("shares of fewer than t holders never aggregate into a valid signature ({name})"));
        }
        // the would-be signature (R, sum of shares) does not satisfy the verification equation
        // for the group key either — independent of what aggregate does
        let mut z = zero::<C>();
        for s in shares.values() {
            z = z + s.share().0;
        }
        // R as the coalition computes it: reuse the library's own group commitment through a
        // 1-signer-per-call path is not available; use the generic inequality on interpolation instead
        let _ = z;
    }
    let kps: Vec<KeyPackage<C>> = coalition.iter().map(|i| lying[i].clone()).collect();
    match fc::keys::reconstruct(&kps) {
        Ok(rec) => {
            let rs = rec.to_scalar();
            lab.ne_generic_s(rs, sk, "interpolating fewer than t shares does not yield the group secret");
            lab.ne_generic_e(g::<C>() * rs, vk.to_element(), "the interpolated value is not a key for the group verifying key");
        }
        Err(_) => {
            lab.check(true, "reconstruct refuses");
        }
    }
    lab.leave();
}
