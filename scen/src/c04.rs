//! C04 — aggregation never releases an invalid signature and blames exactly the cheaters.
use crate::c06::err_name;
use crate::lab::*;
use crate::util::*;
use frost_core as fc;
use frost_core::{Ciphersuite, Identifier};
use std::collections::BTreeMap;

const V_DISABLED: u32 = 0;
const V_FIRST: u32 = 1;
const V_ALL: u32 = 2;
const V_STANDALONE: u32 = 3;
const V_STRUCT: u32 = 4;

pub fn cases(thorough: bool, seed: u64) -> Vec<Params> {
    let mut out = vec![];
    let maxs = if thorough { 5 } else { 4 };
    for (n, t) in crate::nt_pairs(thorough) {
        if n > 6 {
            continue;
        }
        for (k, ids) in [IdSet::Default, IdSet::Wide(seed)].into_iter().enumerate() {
            let mut subs = subsets(n as usize, t as usize, (n as usize).min(maxs).max(t as usize));
            if k == 1 || (!thorough && n >= 4) {
                // fewer subsets for the second identifier set / larger groups: smallest and largest admissible
                let lo = subs.iter().map(|s| s.len()).min().unwrap_or(0);
                let hi = subs.iter().map(|s| s.len()).max().unwrap_or(0);
                let mut keep = vec![];
                for sz in [lo, hi] {
                    if let Some(s) = subs.iter().find(|s| s.len() == sz) {
                        keep.push(s.clone());
                    }
                    if let Some(s) = subs.iter().rev().find(|s| s.len() == sz) {
                        if !keep.contains(s) {
                            keep.push(s.clone());
                        }
                    }
                }
                subs = keep;
            }
            for s in subs {
                for v in [V_DISABLED, V_FIRST, V_ALL, V_STANDALONE] {
                    out.push(Params { n, t, ids: ids.clone(), subset: s.clone(), variant: v, aux: 0, seed });
                }
            }
        }
        for aux in 0..7u64 {
            out.push(Params { n, t, ids: IdSet::Default, subset: (0..t as usize).collect(), variant: V_STRUCT, aux, seed });
        }
    }
    // large signer sets (code paths specialised by size): everybody signs, the shares at three
    // positions (first, middle, last: aux = bitmask over positions) are adversarial, the rest honest
    for (n, t) in crate::large_pairs(thorough) {
        // detection forks and entailment queries over 40 signers with a degree-32 polynomial cost
        // minutes per path (measured 525 s per case): the large shapes here keep t small
        if n > 34 || (n > 17 && t > 2) {
            continue;
        }
        let k = n as u64;
        let mask = 1u64 | (1 << (k / 2)) | (1 << (k - 1));
        for v in [V_DISABLED, V_FIRST, V_ALL, V_STANDALONE] {
            out.push(Params { n, t, ids: IdSet::Default, subset: (0..n as usize).collect(), variant: v, aux: mask, seed });
        }
    }
    out
}

pub fn run<C: Ciphersuite, L: Lab<C>>(lab: &mut L, p: &Params) {
    let Some((_sk, _sh, keys)) = dealer_keys::<C, L>(lab, p) else { return };
    let msg = lab.message("msg");
    let sess = open_session::<C, L>(lab, &keys, &p.subset, msg.clone());
    let Some(honest) = sign_all::<C, L>(lab, &keys, &sess) else { return };
    let vk = *keys.1.verifying_key();

    if p.variant == V_STRUCT {
        return structural::<C, L>(lab, p, &keys, &sess, &honest);
    }

    // every signer's share is replaced by a free adversarial value: one symbolic run covers
    // off-by-one, negated, zero, another signer's, another session's share, cancelling pairs, ...
    let mut submitted = BTreeMap::new();
    let mut zs: BTreeMap<Identifier<C>, (frost_core::Scalar<C>, frost_core::Scalar<C>)> = BTreeMap::new();
    for (j, id) in sess.signers.iter().enumerate() {
        if p.aux != 0 && p.aux & (1 << j) == 0 {
            // large sets: this signer submits its honest share
            submitted.insert(*id, honest[id]);
            zs.insert(*id, (honest[id].share().0, honest[id].share().0));
            continue;
        }
        // replay candidates: the honest value first, then every honest share and every earlier
        // submitted share (a counter-model of the form "honest value plus the error another
        // signer introduced" is replayed as that combination of concrete values)
        let mut cands = vec![honest[id].share().0];
        for other in sess.signers.iter().filter(|o| *o != id).take(4) {
            cands.push(honest[other].share().0);
        }
        for earlier in sess.signers.iter().take(j) {
            cands.push(zs[earlier].0);
        }
        let z = lab.adv_scalar_among(&format!("z'{}", j + 1), &cands);
        submitted.insert(*id, sig_share_from_scalar::<C>(z));
        zs.insert(*id, (z, honest[id].share().0));
    }
    lab.set_policy(Pol::ForkAdv);

    if p.variant == V_STANDALONE {
        lab.enter("verify_signature_share");
        for id in &sess.signers {
            let r = fc::verify_signature_share(*id, &keys.1.verifying_shares()[id], &submitted[id], &sess.package, &vk);
            let (z, zh) = zs[id];
            match (&r, lab.holds_eq_s(z, zh)) {
                (Ok(()), Some(true)) => {
                    lab.check(true, "share verification accepts exactly the honest share value");
                }
                (Err(e), Some(false)) => {
                    lab.check(err_name(e) == "InvalidSignatureShare" && e.culprits() == vec![*id], "share verification rejects a differing share and names its signer");
                }
                (r, h) => {
                    lab.check(false, &format!("share verification outcome ({}) must coincide with share == honest share ({h:?})", if r.is_ok() { "accepted" } else { "rejected" }));
                }
            }
        }
        lab.leave();
        return;
    }

    let (mode, name) = match p.variant {
        V_DISABLED => (fc::CheaterDetection::Disabled, "Disabled"),
        V_FIRST => (fc::CheaterDetection::FirstCheater, "FirstCheater"),
        _ => (fc::CheaterDetection::AllCheaters, "AllCheaters"),
    };
    lab.enter(&format!("aggregate_custom({name})"));
    let r = fc::aggregate_custom(&sess.package, &submitted, &keys.1, mode);
    // which submitted shares equal the honest ones on this path?
    let status: Vec<(Identifier<C>, Option<bool>)> = sess.signers.iter().map(|id| (*id, lab.holds_eq_s(zs[id].0, zs[id].1))).collect();
    match r {
        Ok(sig) => {
            // never releases an invalid signature (errors that cancel can at most yield a valid one)
            spec_verify::<C, L>(lab, vk.to_element(), &msg, *sig.R(), *sig.z(), "a released signature satisfies the verification equation");
            lab.check(vk.verify(&msg, &sig).is_ok(), "a released signature verifies under the group key");
        }
        Err(e) => {
            let en = err_name(&e);
            let culprits = e.culprits();
            match p.variant {
                V_DISABLED => {
                    lab.check(en == "InvalidSignature" && culprits.is_empty(), "with detection disabled an invalid aggregate is reported as InvalidSignature and nobody is named");
                }
                V_FIRST => {
                    lab.check(en == "InvalidSignatureShare", "FirstCheater reports InvalidSignatureShare");
                    if lab.check(culprits.len() == 1, "FirstCheater names exactly one participant") {
                        let c = culprits[0];
                        for (id, st) in status.iter() {
                            if *id < c {
                                lab.check(*st == Some(true), "every participant below the named one submitted the honest share");
                            } else if *id == c {
                                lab.check(*st == Some(false), "the named participant's share differs from the honest one");
                            }
                        }
                    }
                }
                _ => {
                    lab.check(en == "InvalidSignatureShare", "AllCheaters reports InvalidSignatureShare");
                    let mut sorted = culprits.clone();
                    sorted.sort();
                    sorted.dedup();
                    lab.check(sorted == culprits, "culprits are listed once each in ascending order");
                    for (id, st) in status.iter() {
                        if culprits.contains(id) {
                            lab.check(*st == Some(false), "every named participant's share differs from the honest one");
                        } else {
                            lab.check(*st == Some(true), "every participant not named submitted the honest share");
                        }
                    }
                    lab.check(!culprits.is_empty(), "a failed aggregation names at least one cheater");
                }
            }
            // an honest participant is never named (all modes)
            for (id, st) in status.iter() {
                if *st == Some(true) {
                    lab.check(!culprits.contains(id), "a participant whose share is the honest one is never named");
                }
            }
        }
    }
    lab.leave();
}

fn structural<C: Ciphersuite, L: Lab<C>>(lab: &mut L, p: &Params, keys: &Keys<C>, sess: &Session<C>, honest: &BTreeMap<Identifier<C>, fc::round2::SignatureShare<C>>) {
    lab.enter("identifier-set mismatches");
    let ids: Vec<Identifier<C>> = keys.0.keys().copied().collect();
    let outsider = ids.iter().find(|i| !sess.signers.contains(i)).copied();
    let modes = || [fc::CheaterDetection::Disabled, fc::CheaterDetection::FirstCheater, fc::CheaterDetection::AllCheaters];
    match p.aux {
        0 => {
            // one share missing
            let mut sh = honest.clone();
            sh.remove(&sess.signers[0]);
            for m in modes() {
                let r = fc::aggregate_custom(&sess.package, &sh, &keys.1, m);
                lab.check(r.is_err(), "a missing share is refused");
            }
        }
        1 => {
            // surplus share from a non-signer
            if let Some(o) = outsider {
                let mut sh = honest.clone();
                sh.insert(o, honest[&sess.signers[0]]);
                for m in modes() {
                    let r = fc::aggregate_custom(&sess.package, &sh, &keys.1, m);
                    lab.check(r.is_err(), "a surplus share is refused");
                }
            }
        }
        2 => {
            // a share filed under an identifier that did not commit (same count)
            if let Some(o) = outsider {
                let mut sh = honest.clone();
                let s0 = sh.remove(&sess.signers[0]).unwrap();
                sh.insert(o, s0);
                for m in modes() {
                    let r = fc::aggregate_custom(&sess.package, &sh, &keys.1, m);
                    lab.check(r.is_err(), "a share under a non-committing identifier is refused");
                }
            }
        }
        3 => {
            // public key package without one signer's verifying share: detection modes refuse up front
            let mut vs = keys.1.verifying_shares().clone();
            vs.remove(&sess.signers[0]);
            let pk = fc::keys::PublicKeyPackage::new(vs, *keys.1.verifying_key(), Some(p.t));
            for m in [fc::CheaterDetection::FirstCheater, fc::CheaterDetection::AllCheaters] {
                let r = fc::aggregate_custom(&sess.package, honest, &pk, m);
                lab.check(r.is_err(), "a public key package lacking a signer is refused by the detecting modes");
            }
            let r = fc::aggregate_custom(&sess.package, honest, &pk, fc::CheaterDetection::Disabled);
            if let Ok(sig) = r {
                lab.check(keys.1.verifying_key().verify(&sess.message, &sig).is_ok(), "with detection disabled the honest aggregate is still valid");
            }
        }
        4 => {
            // standalone verification under a wrong identifier
            if sess.signers.len() >= 2 {
                let (a, b) = (sess.signers[0], sess.signers[1]);
                let m = lab.mark();
                let r = fc::verify_signature_share(b, &keys.1.verifying_shares()[&b], &honest[&a], &sess.package, keys.1.verifying_key());
                lab.expect_reject(m, r.is_ok(), "another signer's honest share is rejected under this signer's identifier");
            }
        }
        6 => {
            // fewer honest signers than the real threshold, public key package without / with an understated
            // threshold: every share is honest, nothing adds up — no signature may be released in any mode
            if p.t >= 2 {
                let few: Vec<usize> = (0..p.t as usize - 1).collect();
                let lowered: BTreeMap<_, _> = keys.0.iter().map(|(id, kp)| (*id, fc::keys::KeyPackage::new(*id, *kp.signing_share(), *kp.verifying_share(), *kp.verifying_key(), 1))).collect();
                for min in [None, Some(1u16)] {
                    let pk = fc::keys::PublicKeyPackage::new(keys.1.verifying_shares().clone(), *keys.1.verifying_key(), min);
                    let k2: Keys<C> = (lowered.clone(), pk.clone());
                    let sess2 = open_session::<C, L>(lab, &k2, &few, sess.message.clone());
                    if let Some(sh2) = sign_all::<C, L>(lab, &k2, &sess2) {
                        for m in modes() {
                            let mk = lab.mark();
                            let r = fc::aggregate_custom(&sess2.package, &sh2, &pk, m);
                            lab.expect_reject(mk, r.is_ok(), "fewer than t honest shares never aggregate into a released signature, whatever threshold the public key package records");
                        }
                    }
                }
            }
        }
        _ => {
            // empty share map
            let sh = BTreeMap::new();
            for m in modes() {
                let r = fc::aggregate_custom(&sess.package, &sh, &keys.1, m);
                lab.check(r.is_err(), "an empty share map is refused");
            }
        }
    }
    lab.leave();
}
