//! C05 — a signature share is bound to one message, one commitment set and one signer set.
use crate::lab::*;
use crate::util::*;
use frost_core as fc;
use frost_core::round1::{NonceCommitment, SigningCommitments};
use frost_core::{Ciphersuite, Identifier};
use std::collections::BTreeMap;

const V_FILL: u32 = 0; // aux = bitmask: which slots carry session-B shares
const V_SUBST: u32 = 1; // aux = substitution index (see `substitutions`)
const V_SIGNER: u32 = 2; // signer-side refusals, aux = kind
const V_IDENTITY: u32 = 3; // identity commitment, aux = slot*2 + component

pub fn cases(thorough: bool, seed: u64) -> Vec<Params> {
    let mut out = vec![];
    let maxs = if thorough { 4 } else { 3 };
    for (n, t) in crate::nt_pairs(thorough) {
        if n > 5 {
            continue;
        }
        for ids in [IdSet::Default, IdSet::Wide(seed)] {
            let mut subs = subsets(n as usize, t as usize, (n as usize).min(maxs).max(t as usize));
            if ids != IdSet::Default || (!thorough && n > 3) {
                let a = subs[0].clone();
                let b = subs[subs.len() - 1].clone();
                subs = vec![a, b];
                subs.dedup();
            }
            for s in subs {
                let k = s.len() as u64;
                for mask in 1u64..(1 << k) {
                    out.push(Params { n, t, ids: ids.clone(), subset: s.clone(), variant: V_FILL, aux: mask, seed });
                }
                // substitutions: message, per slot hiding/binding, set remove/add/replace, group key
                let nsub = 1 + 2 * k + 3 + 1;
                for a in 0..nsub {
                    out.push(Params { n, t, ids: ids.clone(), subset: s.clone(), variant: V_SUBST, aux: a, seed });
                }
                // compound substitution (aux = 1000 + slot): (D, E) -> (D - rho*Delta, E + Delta) with the
                // session's own binding factor rho: D + rho*E is unchanged, so only the dependence of the
                // binding factors on the commitment list itself makes the honest shares fail
                for slot in 0..k {
                    out.push(Params { n, t, ids: ids.clone(), subset: s.clone(), variant: V_SUBST, aux: 1000 + slot, seed });
                    // aux = 2000 + slot: both commitments of the slot replaced by free adversarial elements
                    out.push(Params { n, t, ids: ids.clone(), subset: s.clone(), variant: V_SUBST, aux: 2000 + slot, seed });
                }
                // signer-side refusals: kind | position of the signer in the set << 8
                for pos in 0..k {
                    if !thorough && pos != 0 && pos != k - 1 {
                        continue;
                    }
                    for a in 0..9u64 {
                        out.push(Params { n, t, ids: ids.clone(), subset: s.clone(), variant: V_SIGNER, aux: a | (pos << 8), seed });
                    }
                }
                for a in 0..(2 * k) {
                    out.push(Params { n, t, ids: ids.clone(), subset: s.clone(), variant: V_IDENTITY, aux: a, seed });
                }
            }
        }
    }
    // large signer sets: everybody signs; substitutions in the first, a middle and the last slot;
    // signer-side refusals at the last position; a concurrent session's share in the last slot
    for (n, t) in crate::large_pairs(thorough) {
        if n > 40 {
            continue;
        }
        let all: Vec<usize> = (0..n as usize).collect();
        let k = n as u64;
        for slot in [0u64, k / 2, k - 1] {
            for comp in 0..2u64 {
                out.push(Params { n, t, ids: IdSet::Default, subset: all.clone(), variant: V_SUBST, aux: 1 + 2 * slot + comp, seed });
            }
        }
        out.push(Params { n, t, ids: IdSet::Default, subset: all.clone(), variant: V_SUBST, aux: 0, seed });
        for slot in [0u64, 1, k / 2, k - 1] {
            out.push(Params { n, t, ids: IdSet::Default, subset: all.clone(), variant: V_SUBST, aux: 1000 + slot, seed });
            out.push(Params { n, t, ids: IdSet::Default, subset: all.clone(), variant: V_SUBST, aux: 2000 + slot, seed });
        }
        for a in [1u64, 6, 7] {
            out.push(Params { n, t, ids: IdSet::Default, subset: all.clone(), variant: V_SIGNER, aux: a | ((k - 1) << 8), seed });
        }
        out.push(Params { n, t, ids: IdSet::Default, subset: all.clone(), variant: V_FILL, aux: 1 << (k.min(63) - 1), seed });
    }
    out
}

fn with_entry<C: Ciphersuite>(base: &BTreeMap<Identifier<C>, SigningCommitments<C>>, id: Identifier<C>, c: SigningCommitments<C>) -> BTreeMap<Identifier<C>, SigningCommitments<C>> {
    let mut m = base.clone();
    m.insert(id, c);
    m
}

pub fn run<C: Ciphersuite, L: Lab<C>>(lab: &mut L, p: &Params) {
    let Some((_sk, _sh, keys)) = dealer_keys::<C, L>(lab, p) else { return };
    let ids: Vec<Identifier<C>> = keys.0.keys().copied().collect();
    let vk = *keys.1.verifying_key();
    let ma = lab.message("msgA");
    let mb = lab.message("msgB");
    let a = open_session::<C, L>(lab, &keys, &p.subset, ma.clone());
    let b = open_session::<C, L>(lab, &keys, &p.subset, mb.clone());
    let k = a.signers.len();

    match p.variant {
        V_FILL => {
            let (Some(za), Some(zb)) = (sign_all::<C, L>(lab, &keys, &a), sign_all::<C, L>(lab, &keys, &b)) else { return };
            lab.enter("session-mix");
            // control: all-A material is accepted in session A (guards against a vacuous rejection)
            lab.check(fc::aggregate(&a.package, &za, &keys.1).is_ok(), "control: session A's own shares aggregate in session A");
            let mut shares = za.clone();
            for (j, id) in a.signers.iter().enumerate() {
                if p.aux & (1 << j) != 0 {
                    shares.insert(*id, zb[id]);
                    let m = lab.mark();
                    let r = fc::verify_signature_share(*id, &keys.1.verifying_shares()[id], &zb[id], &a.package, &vk);
                    lab.expect_reject(m, r.is_ok(), "a share made in a concurrent session is rejected by share verification");
                }
            }
            for (mode, name) in [(fc::CheaterDetection::FirstCheater, "FirstCheater"), (fc::CheaterDetection::Disabled, "Disabled")] {
                let m = lab.mark();
                let r = fc::aggregate_custom(&a.package, &shares, &keys.1, mode);
                lab.expect_reject(m, r.is_ok(), &format!("a share set containing material of a concurrent session does not aggregate ({name})"));
            }
            lab.leave();
        }
        V_SUBST => {
            let Some(za) = sign_all::<C, L>(lab, &keys, &a) else { return };
            lab.enter("package-substitution");
            let base = a.commitments.clone();
            let kk = k as u64;
            // build the verifier's package A' = A with one field replaced
            let (pkg, vkey, what, dropped): (fc::SigningPackage<C>, fc::VerifyingKey<C>, String, Option<Identifier<C>>) = if p.aux >= 2000 {
                let slot = (p.aux - 2000) as usize % k;
                let id = a.signers[slot];
                let (d2, e2) = (lab.adv_element("D'"), lab.adv_element("E'"));
                // at least one of the two differs from the honest entry
                if slot % 2 == 0 {
                    lab.assume_ne_e(d2, base[&id].hiding().value(), "the hiding commitment is replaced");
                } else {
                    lab.assume_ne_e(e2, base[&id].binding().value(), "the binding commitment is replaced");
                }
                lab.set_policy(Pol::ForkAdv);
                let c = SigningCommitments::new(NonceCommitment::new(d2), NonceCommitment::new(e2));
                (fc::SigningPackage::new(with_entry(&base, id, c), &ma), vk, format!("commitments of slot {slot} replaced by arbitrary other elements"), None)
            } else if p.aux >= 1000 {
                let slot = (p.aux - 1000) as usize % k;
                let id = a.signers[slot];
                // session A's binding factor of that signer — the one the library itself used (public:
                // anybody can recompute it from the package), decoded from its serialisation
                let rho = match fc::compute_binding_factor_list(&a.package, &vk, &[]).ok().and_then(|l| l.get(&id).map(|b| b.serialize())).and_then(|b| scalar_from_bytes::<C>(&b)) {
                    Some(r) => r,
                    None => {
                        lab.leave();
                        return;
                    }
                };
                let delta = lab.adv_element("Delta");
                // comparisons on the adversarial commitments (e.g. the identity test) fork: a shifted
                // commitment that happens to be the identity is rejected too, by another check
                lab.set_policy(Pol::ForkAdv);
                let c = SigningCommitments::new(NonceCommitment::new(base[&id].hiding().value() - delta * rho), NonceCommitment::new(base[&id].binding().value() + delta));
                (fc::SigningPackage::new(with_entry(&base, id, c), &ma), vk, format!("commitments of slot {slot} shifted along the binding-factor line (D - rho*Delta, E + Delta)"), None)
            } else if p.aux == 0 {
                (fc::SigningPackage::new(base.clone(), &mb), vk, "message replaced".into(), None)
            } else if p.aux <= 2 * kk {
                let slot = ((p.aux - 1) / 2) as usize;
                let id = a.signers[slot];
                let (ca, cb) = (base[&id], b.commitments[&id]);
                let c = if (p.aux - 1) % 2 == 0 { SigningCommitments::new(*cb.hiding(), *ca.binding()) } else { SigningCommitments::new(*ca.hiding(), *cb.binding()) };
                let w = if (p.aux - 1) % 2 == 0 { "hiding" } else { "binding" };
                (fc::SigningPackage::new(with_entry(&base, id, c), &ma), vk, format!("{w} commitment of slot {slot} replaced by the concurrent session's"), None)
            } else if p.aux == 2 * kk + 1 {
                // participant removed (only when the set stays at least t large)
                if k <= p.t as usize {
                    lab.leave();
                    return;
                }
                let mut m = base.clone();
                let gone = a.signers[k - 1];
                m.remove(&gone);
                (fc::SigningPackage::new(m, &ma), vk, "a participant removed from the set".into(), Some(gone))
            } else if p.aux == 2 * kk + 2 {
                // participant added
                let Some(extra) = ids.iter().find(|i| !a.signers.contains(i)).copied() else {
                    lab.leave();
                    return;
                };
                let (_, cc) = fc::round1::commit(keys.0[&extra].signing_share(), lab.rng());
                (fc::SigningPackage::new(with_entry(&base, extra, cc), &ma), vk, "a participant added to the set".into(), None)
            } else if p.aux == 2 * kk + 3 {
                // participant replaced
                let Some(extra) = ids.iter().find(|i| !a.signers.contains(i)).copied() else {
                    lab.leave();
                    return;
                };
                let (_, cc) = fc::round1::commit(keys.0[&extra].signing_share(), lab.rng());
                let mut m = base.clone();
                let gone = a.signers[k - 1];
                m.remove(&gone);
                m.insert(extra, cc);
                (fc::SigningPackage::new(m, &ma), vk, "a participant replaced in the set".into(), Some(gone))
            } else {
                let other = lab.adv_element("OtherGroupKey");
                lab.assume_ne_e(other, vk.to_element(), "the substituted group key differs from the real one");
                (a.package.clone(), fc::VerifyingKey::<C>::new(other), "group key replaced".into(), None)
            };
            for id in a.signers.iter() {
                if Some(*id) == dropped {
                    continue;
                }
                let m = lab.mark();
                let r = fc::verify_signature_share(*id, &keys.1.verifying_shares()[id], &za[id], &pkg, &vkey);
                lab.expect_reject(m, r.is_ok(), &format!("share verification rejects an honest share once the package differs: {what}"));
            }
            // aggregation of the honest A shares under the altered package
            let mut shares = za.clone();
            if let Some(d) = dropped {
                shares.remove(&d);
            }
            if shares.len() == pkg.signing_commitments().len() {
                let pubs = if vkey == vk { keys.1.clone() } else { fc::keys::PublicKeyPackage::new(keys.1.verifying_shares().clone(), vkey, Some(p.t)) };
                let m = lab.mark();
                let r = fc::aggregate(&pkg, &shares, &pubs);
                lab.expect_reject(m, r.is_ok(), &format!("aggregation fails once the package differs: {what}"));
            }
            lab.leave();
        }
        V_SIGNER => {
            lab.enter("signer-refusals");
            let pos = (p.aux >> 8) as usize;
            let me = a.signers[pos % k];
            // "another signer": the next one in the set (cyclically)
            let other_signer = a.signers[(pos + 1) % k];
            let (mine_a, mine_b) = (a.commitments[&me], b.commitments[&me]);
            let base = a.commitments.clone();
            let (pkg, what, want): (fc::SigningPackage<C>, &str, &str) = match p.aux & 0xff {
                0 => {
                    let mut m = base.clone();
                    m.remove(&me);
                    // keep the count at t or more where the group allows it
                    if let Some(extra) = ids.iter().find(|i| !a.signers.contains(i)).copied() {
                        let (_, cc) = fc::round1::commit(keys.0[&extra].signing_share(), lab.rng());
                        m.insert(extra, cc);
                    }
                    (fc::SigningPackage::new(m, &ma), "own entry missing", "MissingCommitment")
                }
                1 => (fc::SigningPackage::new(with_entry(&base, me, mine_b), &ma), "own entry replaced by own commitments of the concurrent session", "IncorrectCommitment"),
                2 => (fc::SigningPackage::new(with_entry(&base, me, SigningCommitments::new(*mine_b.hiding(), *mine_a.binding())), &ma), "only the hiding commitment of the own entry differs", "IncorrectCommitment"),
                3 => (fc::SigningPackage::new(with_entry(&base, me, SigningCommitments::new(*mine_a.hiding(), *mine_b.binding())), &ma), "only the binding commitment of the own entry differs", "IncorrectCommitment"),
                4 => {
                    let x = lab.adv_element("X");
                    lab.assume_ne_e(x, mine_a.hiding().value(), "the substituted commitment differs");
                    (fc::SigningPackage::new(with_entry(&base, me, SigningCommitments::new(NonceCommitment::new(x), *mine_a.binding())), &ma), "hiding commitment of the own entry is an arbitrary other element", "IncorrectCommitment")
                }
                5 => {
                    // own entry carries another signer's commitments
                    if k < 2 {
                        lab.leave();
                        return;
                    }
                    (fc::SigningPackage::new(with_entry(&base, me, base[&other_signer]), &ma), "own entry carries another signer's commitments", "IncorrectCommitment")
                }
                6 => {
                    // the commitments of the nonces in use are in the package — under another signer's identifier
                    if k < 2 {
                        lab.leave();
                        return;
                    }
                    let m = with_entry(&with_entry(&base, me, mine_b), other_signer, mine_a);
                    (fc::SigningPackage::new(m, &ma), "own entry is the concurrent session's, the true commitments sit in another signer's slot", "IncorrectCommitment")
                }
                7 => {
                    // two entries exchanged
                    if k < 2 {
                        lab.leave();
                        return;
                    }
                    let m = with_entry(&with_entry(&base, me, base[&other_signer]), other_signer, mine_a);
                    (fc::SigningPackage::new(m, &ma), "own entry exchanged with another signer's", "IncorrectCommitment")
                }
                _ => {
                    // own slot differs; the true commitments are filed under an additional participant
                    let Some(extra) = ids.iter().find(|i| !a.signers.contains(i)).copied() else {
                        lab.leave();
                        return;
                    };
                    let m = with_entry(&with_entry(&base, me, mine_b), extra, mine_a);
                    (fc::SigningPackage::new(m, &ma), "own entry differs, the true commitments are filed under an added participant", "IncorrectCommitment")
                }
            };
            let m = lab.mark();
            let r = fc::round2::sign(&pkg, &a.nonces[&me], &keys.0[&me]);
            lab.expect_reject(m, r.is_ok(), &format!("the signer refuses: {what}"));
            let _ = want;
            lab.leave();
        }
        _ => {
            let Some(za) = sign_all::<C, L>(lab, &keys, &a) else { return };
            lab.enter("identity-commitment");
            let slot = (p.aux / 2) as usize;
            let id = a.signers[slot];
            let c = a.commitments[&id];
            let idc = NonceCommitment::<C>::new(ident::<C>());
            let bad = if p.aux % 2 == 0 { SigningCommitments::new(idc, *c.binding()) } else { SigningCommitments::new(*c.hiding(), idc) };
            let pkg = fc::SigningPackage::new(with_entry(&a.commitments, id, bad), &ma);
            // a signer other than the one whose slot is poisoned (its own entry must still match)
            if let Some(other) = a.signers.iter().find(|s| **s != id) {
                let r = fc::round2::sign(&pkg, &a.nonces[other], &keys.0[other]);
                lab.check(r.is_err(), "a signer rejects a package containing an identity commitment");
            }
            let r = fc::aggregate(&pkg, &za, &keys.1);
            lab.check(r.is_err(), "aggregate rejects a package containing an identity commitment");
            let r = fc::verify_signature_share(a.signers[0], &keys.1.verifying_shares()[&a.signers[0]], &za[&a.signers[0]], &pkg, &vk);
            lab.check(r.is_err(), "share verification rejects a package containing an identity commitment");
            lab.leave();
        }
    }
}
