//! C06 — dealer key generation yields consistent, verifiable shares of the given key.
use crate::lab::*;
use crate::util::*;
use frost_core as fc;
use frost_core::Ciphersuite;

pub fn cases(_thorough: bool, _seed: u64) -> Vec<Params> {
    vec![]
}
pub fn run<C: Ciphersuite, L: Lab<C>>(_lab: &mut L, _p: &Params) {
    let _ = fc::CheaterDetection::Disabled;
}
