//! C06 — dealer key generation yields consistent, verifiable shares of the given key.
use crate::lab::*;
use crate::util::*;
use frost_core as fc;
use frost_core::keys::{CoefficientCommitment, IdentifierList, KeyPackage, SecretShare, SigningShare, VerifiableSecretSharingCommitment};
use frost_core::{Ciphersuite, Error, Identifier};

// variants
const V_HONEST: u32 = 0; // consistency of the honest output (aux bit0: generate_with_dealer)
const V_SHARE: u32 = 1; // share value + delta
const V_COEFF: u32 = 2; // commitment entry aux + Delta
const V_IDENT: u32 = 3; // identifier replaced by that of participant aux
const V_TRUNC: u32 = 4; // commitment truncated by one
const V_EXTEND: u32 = 5; // commitment extended by one adversarial entry
const V_PARAMS: u32 = 6; // parameter / identifier-list refusals (aux: grid index)

pub const GRID: [u16; 5] = [0, 1, 2, 65534, 65535];

pub fn cases(thorough: bool, seed: u64) -> Vec<Params> {
    let mut out = vec![];
    for (n, t) in crate::nt_pairs(thorough) {
        for ids in crate::id_sets(n, thorough, seed) {
            let mk = |variant: u32, aux: u64, subset: Vec<usize>| Params { n, t, ids: ids.clone(), subset, variant, aux, seed };
            out.push(mk(V_HONEST, 0, vec![]));
            if ids == IdSet::Default {
                out.push(mk(V_HONEST, 1, vec![]));
            }
            // tampering: every participant for the default set, first and last otherwise
            let victims: Vec<usize> = if ids == IdSet::Default || n <= 3 { (0..n as usize).collect() } else { vec![0, n as usize - 1] };
            for v in victims {
                out.push(mk(V_SHARE, 0, vec![v]));
                for k in 0..t as u64 {
                    out.push(mk(V_COEFF, k, vec![v]));
                }
                for other in 0..n as u64 {
                    if other as usize != v {
                        out.push(mk(V_IDENT, other, vec![v]));
                    }
                }
                out.push(mk(V_TRUNC, 0, vec![v]));
                out.push(mk(V_EXTEND, 0, vec![v]));
            }
        }
    }
    // larger groups (code paths specialised by size): honest consistency and one tampered share
    for (n, t) in if thorough { vec![(9u16, 5u16), (12, 9), (34, 2), (40, 33), (65, 3)] } else { vec![(9u16, 5u16), (34, 2)] } {
        for ids in [IdSet::Default, IdSet::Wide(seed)] {
            if n > 12 && ids != IdSet::Default {
                continue;
            }
            out.push(Params { n, t, ids: ids.clone(), subset: vec![], variant: V_HONEST, aux: 0, seed });
            out.push(Params { n, t, ids: ids.clone(), subset: vec![n as usize - 1], variant: V_SHARE, aux: 0, seed });
            out.push(Params { n, t, ids: ids.clone(), subset: vec![n as usize / 2], variant: V_COEFF, aux: t as u64 - 1, seed });
        }
    }
    // parameter grid and identifier-list refusals (independent of the sweep)
    for i in 0..(GRID.len() * GRID.len()) as u64 {
        let (n, t) = (GRID[(i as usize) / GRID.len()], GRID[(i as usize) % GRID.len()]);
        if expected_param_error(n, t).is_none() && n > 100 {
            continue; // valid but huge: split(65535, 2) is aux 200 in the thorough tier
        }
        out.push(Params { n: 0, t: 0, ids: IdSet::Default, subset: vec![], variant: V_PARAMS, aux: i, seed });
    }
    for k in 0..7u64 {
        out.push(Params { n: 3, t: 2, ids: IdSet::Default, subset: vec![], variant: V_PARAMS, aux: 100 + k, seed });
    }
    if thorough {
        out.push(Params { n: 65535, t: 2, ids: IdSet::Default, subset: vec![], variant: V_PARAMS, aux: 200, seed });
    }
    out
}

fn expected_param_error(n: u16, t: u16) -> Option<&'static str> {
    if t < 2 {
        Some("InvalidMinSigners")
    } else if n < 2 {
        Some("InvalidMaxSigners")
    } else if t > n {
        Some("InvalidMinSigners")
    } else {
        None
    }
}
pub fn err_name<C: Ciphersuite>(e: &Error<C>) -> String {
    let s = format!("{e:?}");
    s.split(|c: char| !c.is_alphanumeric()).next().unwrap_or("").to_string()
}

fn params_case<C: Ciphersuite, L: Lab<C>>(lab: &mut L, p: &Params) {
    lab.enter("parameters");
    let sk = lab.nz_scalar("sk");
    let key = fc::SigningKey::<C>::from_scalar(sk).unwrap();
    if p.aux < 100 {
        let n = GRID[(p.aux as usize) / GRID.len()];
        let t = GRID[(p.aux as usize) % GRID.len()];
        let want = expected_param_error(n, t);
        if want.is_none() && n > 100 {
            lab.leave();
            return; // valid but huge: covered by aux 200 in the thorough tier
        }
        let before = lab.rng_requests().len();
        let r = fc::keys::split(&key, n, t, IdentifierList::Default, lab.rng());
        match (want, &r) {
            (Some(w), Err(e)) => {
                let _ = (e, w);
                lab.check(true, &format!("split({n},{t}) refuses"));
            }
            (Some(w), Ok(_)) => {
                lab.check(false, &format!("split({n},{t}) must refuse with {w}"));
            }
            (None, Ok((sh, _))) => {
                lab.check(sh.len() == n as usize, "valid boundary parameters yield n shares");
            }
            (None, Err(e)) => {
                lab.check(false, &format!("split({n},{t}) must succeed, got {}", err_name(e)));
            }
        }
        let before = lab.rng_requests().len();
        let r2 = fc::keys::generate_with_dealer::<C, _>(n, t, IdentifierList::Default, lab.rng());
        match (want, &r2) {
            (Some(w), Err(e)) => {
                let _ = (e, w);
                lab.check(true, &format!("generate_with_dealer({n},{t}) refuses"));
            }
            (Some(w), Ok(_)) => {
                lab.check(false, &format!("generate_with_dealer({n},{t}) must refuse with {w}"));
            }
            (None, r) => {
                lab.check(r.is_ok(), "generate_with_dealer succeeds on valid boundary parameters");
            }
        }
        let _ = before;
    } else if p.aux == 200 {
        let r = fc::keys::split(&key, 65535, 2, IdentifierList::Default, lab.rng());
        if lab.check(r.is_ok(), "split(65535, 2) succeeds") {
            let (sh, pk) = r.unwrap();
            lab.check(sh.len() == 65535 && pk.verifying_shares().len() == 65535, "65535 shares and verifying shares");
            let last = Identifier::<C>::try_from(65535).unwrap();
            let kp = KeyPackage::try_from(sh[&last].clone());
            lab.check(kp.is_ok(), "the share of participant 65535 verifies");
        }
    } else {
        let id = |i: u16| Identifier::<C>::try_from(i).unwrap();
        let (list, want): (Vec<Identifier<C>>, &str) = match p.aux - 100 {
            0 => (vec![id(1), id(2)], "IncorrectNumberOfIdentifiers"),
            1 => (vec![id(1), id(2), id(3), id(4)], "IncorrectNumberOfIdentifiers"),
            2 => (vec![id(1), id(2), id(2)], "DuplicatedIdentifier"),
            3 => (vec![id(7), id(9), id(7)], "DuplicatedIdentifier"),
            // list lengths that agree with max_signers only modulo 2^16 (distinct identifiers:
            // 1..=65535 followed by values above the u16 range)
            k => {
                let len = match k {
                    4 => 3 + 65536usize,
                    5 => 3 + 2 * 65536usize,
                    _ => 65536usize,
                };
                let mut l: Vec<Identifier<C>> = Vec::with_capacity(len);
                let mut acc = zero::<C>();
                for _ in 0..len {
                    acc = acc + one::<C>();
                    l.push(Identifier::<C>::new(acc).unwrap());
                }
                (l, "IncorrectNumberOfIdentifiers")
            }
        };
        let r = fc::keys::split(&key, 3, 2, IdentifierList::Custom(&list), lab.rng());
        match r {
            Err(_) => {
                lab.check(true, &format!("identifier list refused ({want})"));
            }
            Ok(_) => {
                lab.check(false, &format!("identifier list must be refused with {want}"));
            }
        }
    }
    lab.leave();
}

pub fn run<C: Ciphersuite, L: Lab<C>>(lab: &mut L, p: &Params) {
    if p.variant == V_PARAMS {
        return params_case::<C, L>(lab, p);
    }
    let ids = identifiers::<C>(p);
    let (sk, shares, keys) = if p.variant == V_HONEST && p.aux == 1 {
        // generate_with_dealer: the key itself comes from the random source
        lab.enter("generate_with_dealer");
        let r = fc::keys::generate_with_dealer::<C, _>(p.n, p.t, IdentifierList::Default, lab.rng());
        if !lab.check(r.is_ok(), "generate_with_dealer succeeds") {
            lab.leave();
            return;
        }
        let (shares, pubs) = r.unwrap();
        let mut kps = std::collections::BTreeMap::new();
        for (id, sh) in shares.iter() {
            let kp = KeyPackage::try_from(sh.clone());
            if !lab.check(kp.is_ok(), "share verifies") {
                lab.leave();
                return;
            }
            kps.insert(*id, kp.unwrap());
        }
        lab.leave();
        (None, shares, (kps, pubs))
    } else {
        let Some((sk, shares, keys)) = dealer_keys::<C, L>(lab, p) else { return };
        (Some(sk), shares, keys)
    };
    let t = p.t as usize;

    if p.variant == V_HONEST {
        lab.enter("consistency");
        lab.check(shares.len() == p.n as usize && keys.1.verifying_shares().len() == p.n as usize, "n shares and n verifying shares");
        lab.check(shares.keys().copied().collect::<Vec<_>>() == ids, "shares are issued for exactly the requested identifiers");
        lab.check(keys.1.min_signers() == Some(p.t), "public key package records threshold t");
        let vk = *keys.1.verifying_key();
        if let Some(sk) = sk {
            lab.eq_e(vk.to_element(), g::<C>() * sk, "group key = G * key");
        }
        let commitment = shares[&ids[0]].commitment().clone();
        lab.check(commitment.coefficients().len() == t, "commitment has exactly t entries");
        // the committed polynomial: phi_0 commits to the key; the t-1 non-constant coefficients are a
        // full-rank image of draws of the caller's source (independent — not merely degree t-1).
        // Which draw feeds which coefficient, and how many draws are made, is not prescribed.
        let phis: Vec<_> = commitment.coefficients().iter().map(|c| c.value()).collect();
        lab.eq_e(phis[0], vk.to_element(), "commitment entry 0 = the group key");
        if t >= 2 {
            lab.jointly_uniform_e(&phis[1..], "the t-1 non-constant coefficients are independent fresh values (full-rank image of draws)");
        }
        for (i, id) in ids.iter().enumerate() {
            let sh = &shares[id];
            let kp = &keys.0[id];
            lab.check(sh.commitment() == &commitment, "every share carries the same commitment");
            lab.check(*kp.min_signers() == p.t && kp.identifier() == id, "key package records t and its identifier");
            let s_i = kp.signing_share().to_scalar();
            lab.eq_e(kp.verifying_share().to_element(), g::<C>() * s_i, "verifying share = G * signing share");
            lab.eq_e(kp.verifying_share().to_element(), keys.1.verifying_shares()[id].to_element(), "verifying share = public key package entry");
            lab.eq_e(kp.verifying_key().to_element(), vk.to_element(), "one group key everywhere");
            match sh.verify() {
                Ok((vs, vk2)) => {
                    lab.eq_e(vs.to_element(), g::<C>() * s_i, "SecretShare::verify returns G * share");
                    lab.eq_e(vk2.to_element(), vk.to_element(), "SecretShare::verify returns the group key");
                }
                Err(_) => {
                    lab.check(false, "honest share verifies");
                }
            }
            // the share lies on the committed polynomial — transcription independent of the library's
            // evaluation routines: G * share = sum_k phi_k * id^k
            {
                let x = id.to_scalar();
                let mut pw = one::<C>();
                let mut acc = ident::<C>();
                for phi in phis.iter() {
                    acc = acc + *phi * pw;
                    pw = pw * x;
                }
                lab.eq_e(g::<C>() * s_i, acc, "share lies on the committed polynomial: G * share = sum_k phi_k * id^k");
            }
        }
        // degree exactly t-1 with independent coefficients: any t-1 shares are jointly uniform
        if t >= 2 {
            let firsts: Vec<_> = ids.iter().take(t - 1).map(|i| keys.0[i].signing_share().to_scalar()).collect();
            lab.jointly_uniform(&firsts, "any t-1 shares are a full-rank image of the coefficient draws (degree exactly t-1, independent coefficients)");
        }
        lab.leave();
        lab.enter("reconstruct");
        let all: Vec<KeyPackage<C>> = ids.iter().map(|i| keys.0[i].clone()).collect();
        let skv = sk;
        for (si, sub) in subsets(p.n as usize, t, t).into_iter().enumerate() {
            // the slice is the caller's: handed over in a rotated order
            let mut kps: Vec<KeyPackage<C>> = sub.iter().map(|i| all[*i].clone()).collect();
            let by = si % kps.len().max(1);
            kps.rotate_left(by);
            match fc::keys::reconstruct(&kps) {
                Ok(k) => {
                    if let Some(skv) = skv {
                        lab.eq_s(k.to_scalar(), skv, "any t shares reconstruct the key");
                    } else {
                        lab.eq_e(g::<C>() * k.to_scalar(), vk.to_element(), "any t shares reconstruct the key (checked against the group key)");
                    }
                }
                Err(_) => {
                    lab.check(false, "reconstruct succeeds with t shares");
                }
            }
        }
        lab.leave();
        return;
    }

    // ---- tampering: the victim's share is altered in one coordinate and must be rejected
    let vid = ids[p.subset[0]];
    let sh = shares[&vid].clone();
    let honest_commitment = sh.commitment().clone();
    lab.enter("tamper");
    let (tampered, what): (SecretShare<C>, String) = match p.variant {
        V_SHARE => {
            let d = lab.adv_scalar("delta");
            lab.assume_ne_s(d, zero::<C>(), "delta is non-zero (the share is altered)");
            (SecretShare::new(vid, SigningShare::new(sh.signing_share().to_scalar() + d), honest_commitment.clone()), "share value altered by delta".into())
        }
        V_COEFF => {
            let d = lab.adv_element("Delta");
            let mut cs: Vec<CoefficientCommitment<C>> = honest_commitment.coefficients().to_vec();
            let k = p.aux as usize;
            cs[k] = CoefficientCommitment::new(cs[k].value() + d);
            (SecretShare::new(vid, *sh.signing_share(), VerifiableSecretSharingCommitment::new(cs)), format!("commitment entry {k} altered"))
        }
        V_IDENT => {
            let other = ids[p.aux as usize];
            (SecretShare::new(other, *sh.signing_share(), honest_commitment.clone()), "identifier replaced by another participant's".into())
        }
        V_TRUNC => {
            let mut cs: Vec<CoefficientCommitment<C>> = honest_commitment.coefficients().to_vec();
            cs.pop();
            (SecretShare::new(vid, *sh.signing_share(), VerifiableSecretSharingCommitment::new(cs)), "commitment truncated".into())
        }
        _ => {
            let d = lab.adv_element("Extra");
            let mut cs: Vec<CoefficientCommitment<C>> = honest_commitment.coefficients().to_vec();
            cs.push(CoefficientCommitment::new(d));
            (SecretShare::new(vid, *sh.signing_share(), VerifiableSecretSharingCommitment::new(cs)), "commitment extended".into())
        }
    };
    let m = lab.mark();
    let r = tampered.verify();
    lab.expect_reject(m, r.is_ok(), &format!("SecretShare::verify rejects: {what}"));
    let m = lab.mark();
    let r2 = KeyPackage::try_from(tampered);
    lab.expect_reject(m, r2.is_ok(), &format!("KeyPackage::try_from rejects: {what}"));
    lab.leave();
}
