//! C07 — honest distributed key generation ends with one group key and matching shares.
use crate::lab::*;
use crate::util::*;
use frost_core as fc;
use frost_core::{Ciphersuite, Identifier};

pub fn cases(thorough: bool, seed: u64) -> Vec<Params> {
    let mut out = vec![];
    for (n, t) in crate::nt_pairs(thorough) {
        if n > 7 {
            continue;
        }
        for ids in crate::id_sets(n, thorough, seed) {
            out.push(Params { n, t, ids, subset: vec![], variant: 0, aux: 0, seed });
        }
    }
    // larger groups (code paths specialised by size): default and pseudo-random identifiers
    for (n, t) in if thorough { vec![(9u16, 5u16), (12, 9), (17, 3), (34, 2)] } else { vec![(9u16, 5u16)] } {
        out.push(Params { n, t, ids: IdSet::Default, subset: vec![], variant: 0, aux: 0, seed });
        if n <= 12 {
            out.push(Params { n, t, ids: IdSet::Wide(seed), subset: vec![], variant: 0, aux: 0, seed });
        }
    }
    out
}

pub fn run<C: Ciphersuite, L: Lab<C>>(lab: &mut L, p: &Params) {
    let ids = identifiers::<C>(p);
    let t = p.t as usize;
    let Some(run) = dkg_parts12::<C, L>(lab, p) else { return };
    let Some(((kps, pub0), pubs)) = dkg_part3_all::<C, L>(lab, p, &run) else { return };

    lab.enter("agreement");
    for pp in pubs.iter() {
        lab.check(pp.min_signers() == Some(p.t), "every public key package records threshold t");
        lab.check(pp.verifying_shares().keys().copied().collect::<Vec<_>>() == ids, "every public key package lists exactly the participants");
        lab.eq_e(pp.verifying_key().to_element(), pub0.verifying_key().to_element(), "all participants hold the same group key");
        for id in &ids {
            if let (Some(a), Some(b)) = (pp.verifying_shares().get(id), pub0.verifying_shares().get(id)) {
                lab.eq_e(a.to_element(), b.to_element(), "all participants hold the same verifying shares");
            }
        }
    }
    lab.leave();

    lab.enter("consistency");
    // group key = sum of the constant-term commitments
    let mut sum0 = ident::<C>();
    for id in &ids {
        sum0 = sum0 + run.r1[id].commitment().coefficients()[0].value();
    }
    lab.eq_e(pub0.verifying_key().to_element(), sum0, "group key = sum of all participants' constant-term commitments");
    for (j, id) in ids.iter().enumerate() {
        let kp = &kps[id];
        let s = kp.signing_share().to_scalar();
        lab.check(kp.identifier() == id && *kp.min_signers() == p.t, "key package records its identifier and t");
        lab.eq_e(kp.verifying_share().to_element(), g::<C>() * s, "verifying share = G * signing share");
        lab.eq_e(kp.verifying_share().to_element(), pubs[j].verifying_shares()[id].to_element(), "verifying share = own public key package entry");
        lab.eq_e(kp.verifying_key().to_element(), pubs[j].verifying_key().to_element(), "key package and public key package carry the same group key");
        // the share lies on the sum of the participants' polynomials: public form, via commitments
        let x = id.to_scalar();
        let mut acc = ident::<C>();
        for l in &ids {
            let mut pw = one::<C>();
            for c in run.r1[l].commitment().coefficients() {
                acc = acc + c.value() * pw;
                pw = pw * x;
            }
        }
        lab.eq_e(g::<C>() * s, acc, "G * share = sum over participants and k of phi_{l,k} * id^k");
        // secret form: the participants' own coefficient vectors (their round-one secret packages)
        let mut sacc = zero::<C>();
        let have = true;
        for l in &ids {
            let mut pw = one::<C>();
            for a in run.r1_secret[l].coefficients() {
                sacc = sacc + a * pw;
                pw = pw * x;
            }
        }
        if have {
            lab.eq_s(s, sacc, "share = (sum of the participants' polynomials)(id)");
        }
    }
    lab.leave();

    // any t participants can then sign: first t and last t
    let n = ids.len();
    let keys: Keys<C> = (kps, pub0);
    for (signers, what) in [((0..t).collect::<Vec<_>>(), "first t"), (((n - t)..n).collect::<Vec<_>>(), "last t")] {
        lab.enter("sign-after-dkg");
        let msg = lab.message("msg");
        let sess = open_session::<C, L>(lab, &keys, &signers, msg.clone());
        if let Some(shares) = sign_all::<C, L>(lab, &keys, &sess) {
            for id in &sess.signers {
                let r = fc::verify_signature_share(*id, &keys.1.verifying_shares()[id], &shares[id], &sess.package, keys.1.verifying_key());
                lab.check(r.is_ok(), "honest share verifies against the DKG public key package");
            }
            let r = fc::aggregate(&sess.package, &shares, &keys.1);
            if lab.check(r.is_ok(), &format!("the {what} participants sign after DKG")) {
                let sig = r.unwrap();
                spec_verify::<C, L>(lab, keys.1.verifying_key().to_element(), &msg, *sig.R(), *sig.z(), "signature after DKG verifies under the group key");
            }
        }
        lab.leave();
        if n == t {
            break;
        }
    }
    let _: Option<Identifier<C>> = None;
}
