//! C08 — key generation aborts and names the sender on any malformed peer contribution.
use crate::c06::err_name;
use crate::lab::*;
use crate::util::*;
use frost_core as fc;
use frost_core::keys::dkg::{self, round1, round2};
use frost_core::keys::{CoefficientCommitment, SigningShare, VerifiableSecretSharingCommitment};
use frost_core::{Ciphersuite, Identifier, Signature};
use std::collections::BTreeMap;

// fault kinds (variant); aux encodes (receiver index, sender index, extra)
const F_MU: u32 = 1; // proof response altered
const F_R: u32 = 2; // proof commitment altered
const F_PROOF_OTHER_ID: u32 = 3; // proof computed for another identifier
const F_PROOF_OTHER_COMMITMENT: u32 = 4; // proof belongs to another commitment of the same sender
const F_LEN_SHORT: u32 = 5;
const F_LEN_LONG: u32 = 6;
const F_COEFF: u32 = 7; // commitment coefficient `extra` altered
const F_SHARE: u32 = 8; // round-two share altered
const F_SHARE_OTHER_RECIPIENT: u32 = 9;
const F_OWN_ID_R1: u32 = 10;
const F_OWN_ID_R2: u32 = 11;
const F_UNKNOWN_R1: u32 = 12;
const F_UNKNOWN_R2: u32 = 13;
const F_MISSING_R1: u32 = 14;
const F_MISSING_R2: u32 = 15;
const F_SURPLUS_R1: u32 = 16;
const F_SURPLUS_R2: u32 = 17;
const F_NONE: u32 = 0; // control: no fault, everything accepted
// Kinds 18/19 are NOT part of the case list: part3 documents "round1_packages must be the same used in part2()", so an
// equivocating sender whose wrong-length commitment reaches part3 only is outside the library's contract. On the unchanged
// tree part3 accepts such input (it does not re-check commitment lengths; sum_commitments truncates): recorded in DESIGN.md
// as an observation, not demanded here (the code below stays for `--case` experiments).
const F_LEN_SHORT_P3: u32 = 18; // part2 saw the honest package; part3 is handed a commitment one entry short, with a share consistent with it
const F_LEN_LONG_P3: u32 = 19; // ... one entry long, with a share consistent with it

pub fn cases(thorough: bool, seed: u64) -> Vec<Params> {
    let mut out = vec![];
    let maxn = if thorough { 4 } else { 3 };
    for n in 2..=maxn {
        for t in 2..=n {
            for ids in [IdSet::Default, IdSet::Wide(seed)] {
                if ids != IdSet::Default && n != maxn {
                    continue;
                }
                for r in 0..n as u64 {
                    for s in 0..n as u64 {
                        if r == s {
                            continue;
                        }
                        let mk = |variant: u32, extra: u64| Params { n, t, ids: ids.clone(), subset: vec![], variant, aux: r | (s << 8) | (extra << 16), seed };
                        for v in [F_NONE, F_MU, F_R, F_PROOF_OTHER_ID, F_PROOF_OTHER_COMMITMENT, F_LEN_SHORT, F_LEN_LONG, F_SHARE, F_SHARE_OTHER_RECIPIENT, F_OWN_ID_R1, F_OWN_ID_R2, F_UNKNOWN_R1, F_UNKNOWN_R2, F_MISSING_R1, F_MISSING_R2, F_SURPLUS_R1, F_SURPLUS_R2] {
                            out.push(mk(v, 0));
                        }
                        for k in 0..t as u64 {
                            out.push(mk(F_COEFF, k));
                        }
                    }
                }
            }
        }
    }
    out
}

pub fn run<C: Ciphersuite, L: Lab<C>>(lab: &mut L, p: &Params) {
    let ids = identifiers::<C>(p);
    let (ri, si, extra) = ((p.aux & 0xff) as usize, ((p.aux >> 8) & 0xff) as usize, (p.aux >> 16) as usize);
    let (me, sender) = (ids[ri], ids[si]);
    let Some(run) = dkg_parts12::<C, L>(lab, p) else { return };
    let outsider = Identifier::<C>::try_from(4242u16).unwrap();

    // the receiver's honest inputs
    let mut r1: BTreeMap<Identifier<C>, round1::Package<C>> = run.r1.iter().filter(|(k, _)| **k != me).map(|(k, v)| (*k, v.clone())).collect();
    let mut r2: BTreeMap<Identifier<C>, round2::Package<C>> = run.r2.iter().filter(|(k, _)| **k != me).map(|(k, v)| (*k, v[&me].clone())).collect();
    let honest = r1[&sender].clone();
    let pok = *honest.proof_of_knowledge();
    let coeffs = run.r1_secret[&sender].coefficients();

    lab.enter("fault");
    lab.set_policy(Pol::ForkAdv);
    // where the fault must be detected: 2 = part2, 3 = part3; attributable faults must name the sender
    let (stage, attributable, what): (u8, bool, &str) = match p.variant {
        F_NONE => (0, false, "no fault"),
        F_LEN_SHORT_P3 | F_LEN_LONG_P3 => (3, false, "wrong-length commitment handed to part3 only"),
        F_MU => {
            let d = lab.adv_scalar("delta");
            lab.assume_ne_s(d, zero::<C>(), "the proof response is altered");
            r1.insert(sender, round1::Package::new(honest.commitment().clone(), Signature::<C>::new(*pok.R(), *pok.z() + d)));
            (2, true, "proof-of-knowledge response altered")
        }
        F_R => {
            // any other (decodable, hence non-identity) element in place of R
            let r_new = lab.adv_element("R'");
            lab.assume_ne_e(r_new, *pok.R(), "the proof commitment is altered");
            r1.insert(sender, round1::Package::new(honest.commitment().clone(), Signature::<C>::new(r_new, *pok.z())));
            (2, true, "proof-of-knowledge commitment altered")
        }
        F_PROOF_OTHER_ID => {
            // the sender's proof, honestly computed, but for another participant's identifier
            let other = *ids.iter().find(|i| **i != sender).unwrap();
            let Ok(proof) = dkg::compute_proof_of_knowledge::<C, _>(other, &coeffs, honest.commitment(), &mut *lab.rng()) else {
                lab.leave();
                return;
            };
            r1.insert(sender, round1::Package::new(honest.commitment().clone(), proof));
            (2, true, "proof of knowledge made for another identifier")
        }
        F_PROOF_OTHER_COMMITMENT => {
            // the same sender's contribution from a concurrent run: its commitment with this run's proof
            let Ok((_, other_run)) = dkg::part1::<C, _>(sender, p.n, p.t, &mut *lab.rng()) else {
                lab.leave();
                return;
            };
            r1.insert(sender, round1::Package::new(other_run.commitment().clone(), pok));
            (2, true, "proof of knowledge belongs to another commitment")
        }
        F_LEN_SHORT => {
            let mut cs: Vec<CoefficientCommitment<C>> = honest.commitment().coefficients().to_vec();
            cs.pop();
            if cs.is_empty() {
                lab.leave();
                return;
            }
            r1.insert(sender, round1::Package::new(VerifiableSecretSharingCommitment::new(cs), pok));
            (2, false, "commitment one entry short")
        }
        F_LEN_LONG => {
            let mut cs: Vec<CoefficientCommitment<C>> = honest.commitment().coefficients().to_vec();
            cs.push(CoefficientCommitment::new(lab.adv_element("Extra")));
            r1.insert(sender, round1::Package::new(VerifiableSecretSharingCommitment::new(cs), pok));
            (2, false, "commitment one entry long")
        }
        F_COEFF => {
            let c_new = lab.adv_element("phi'");
            let mut cs: Vec<CoefficientCommitment<C>> = honest.commitment().coefficients().to_vec();
            lab.assume_ne_e(c_new, cs[extra].value(), "the commitment coefficient is altered");
            cs[extra] = CoefficientCommitment::new(c_new);
            r1.insert(sender, round1::Package::new(VerifiableSecretSharingCommitment::new(cs), pok));
            // the proof binds only the constant term: k = 0 fails in part2, k >= 1 in part3
            (if extra == 0 { 2 } else { 3 }, true, "commitment coefficient altered")
        }
        F_SHARE => {
            let d = lab.adv_scalar("delta");
            lab.assume_ne_s(d, zero::<C>(), "the round-two share is altered");
            let h = r2[&sender].signing_share().to_scalar();
            r2.insert(sender, round2::Package::new(SigningShare::new(h + d)));
            (3, true, "round-two share altered")
        }
        F_SHARE_OTHER_RECIPIENT => {
            // the share the sender honestly computed for somebody else (or for itself when n = 2)
            let other = ids.iter().find(|i| **i != me && **i != sender).copied();
            let sh = match other {
                Some(o) => *run.r2[&sender][&o].signing_share(),
                None => SigningShare::from_coefficients(&coeffs, sender),
            };
            r2.insert(sender, round2::Package::new(sh));
            (3, true, "round-two share computed for another recipient")
        }
        F_OWN_ID_R1 => {
            // the sender's (valid) contribution arrives filed under the recipient's own identifier
            let x = r1.remove(&sender).unwrap();
            r1.insert(me, x);
            (2, false, "round-one contribution filed under the recipient's own identifier")
        }
        F_OWN_ID_R2 => {
            let x = r2.remove(&sender).unwrap();
            r2.insert(me, x);
            (3, false, "round-two contribution filed under the recipient's own identifier")
        }
        F_UNKNOWN_R1 => {
            let x = r1.remove(&sender).unwrap();
            r1.insert(outsider, x);
            (2, false, "round-one contribution filed under an unknown identifier")
        }
        F_UNKNOWN_R2 => {
            let x = r2.remove(&sender).unwrap();
            r2.insert(outsider, x);
            (3, false, "round-two contribution filed under an unknown identifier")
        }
        F_MISSING_R1 => {
            r1.remove(&sender);
            (2, false, "round-one contribution missing")
        }
        F_MISSING_R2 => {
            r2.remove(&sender);
            (3, false, "round-two contribution missing")
        }
        F_SURPLUS_R1 => {
            let Ok((_, extra_pkg)) = dkg::part1::<C, _>(outsider, p.n, p.t, &mut *lab.rng()) else {
                lab.leave();
                return;
            };
            // the surplus package sits right after `sender` or at the very end depending on the id order
            r1.insert(if si % 2 == 0 { outsider } else { Identifier::<C>::new(zero::<C>() - one::<C>()).unwrap() }, extra_pkg);
            (2, false, "surplus round-one contribution")
        }
        _ => {
            let x = r2[&sender].clone();
            r2.insert(if si % 2 == 0 { outsider } else { Identifier::<C>::new(zero::<C>() - one::<C>()).unwrap() }, x);
            (3, false, "surplus round-two contribution")
        }
    };

    // ---- faults that appear only in what part3 is handed (an equivocating sender): part2 runs on the honest set
    if matches!(p.variant, F_LEN_SHORT_P3 | F_LEN_LONG_P3) {
        let honest_r1 = r1.clone();
        let Ok((s2, _)) = dkg::part2(run.r1_secret[&me].clone(), &honest_r1) else {
            lab.check(false, "part2 accepts the honest round-one set");
            lab.leave();
            return;
        };
        let mut cs: Vec<CoefficientCommitment<C>> = honest.commitment().coefficients().to_vec();
        let mut cf = coeffs.clone();
        let what2 = if p.variant == F_LEN_SHORT_P3 {
            cs.pop();
            cf.pop();
            "part3 is handed a commitment one entry short (with a share consistent with it)"
        } else {
            let extra = lab.adv_scalar("extra coefficient");
            lab.assume_ne_s(extra, zero::<C>(), "the extra coefficient is non-zero");
            cs.push(CoefficientCommitment::new(g::<C>() * extra));
            cf.push(extra);
            "part3 is handed a commitment one entry long (with a share consistent with it)"
        };
        if cs.is_empty() {
            lab.leave();
            return;
        }
        let mut r1p = honest_r1.clone();
        r1p.insert(sender, round1::Package::new(VerifiableSecretSharingCommitment::new(cs), pok));
        r2.insert(sender, round2::Package::new(SigningShare::from_coefficients(&cf, me)));
        let m = lab.mark();
        let p3 = dkg::part3(&s2, &r1p, &r2);
        lab.expect_reject(m, p3.is_ok(), &format!("part3 rejects instead of producing key material: {what2}"));
        lab.leave();
        return;
    }
    // ---- the receiver's part2
    let r1_for_part3 = r1.clone();
    let m = lab.mark();
    let p2 = dkg::part2(run.r1_secret[&me].clone(), &r1);
    if stage == 2 {
        lab.expect_reject(m, p2.is_ok(), &format!("part2 rejects: {what}"));
        if let Err(e) = &p2 {
            if attributable {
                lab.check(e.culprits() == vec![sender], &format!("part2 names exactly the offending sender: {what}"));
            }
            // attributable or not: the receiver never blames itself for a peer's fault
            lab.check(!e.culprits().contains(&me), &format!("part2 never names the receiver itself: {what}"));
        }
        // and part3, were it reached with the receiver's honest round-two secret, does not produce key material either
        if matches!(p.variant, F_MISSING_R1 | F_SURPLUS_R1 | F_OWN_ID_R1 | F_UNKNOWN_R1) {
            let p3 = dkg::part3(&run.r2_secret[&me], &r1_for_part3, &r2);
            lab.check(p3.is_err(), &format!("part3 does not accept the same round-one set: {what}"));
        }
        lab.leave();
        return;
    }
    if !lab.check(p2.is_ok(), "part2 accepts contributions whose fault (if any) is not yet observable") {
        lab.leave();
        return;
    }
    let (s2, _) = p2.unwrap();
    // ---- the receiver's part3
    let m = lab.mark();
    let p3 = dkg::part3(&s2, &r1, &r2);
    if stage == 3 {
        lab.expect_reject(m, p3.is_ok(), &format!("part3 rejects instead of producing key material: {what}"));
        if let Err(e) = &p3 {
            if attributable {
                lab.check(e.culprits() == vec![sender], &format!("part3 names exactly the offending sender: {what}"));
            }
            lab.check(!e.culprits().contains(&me), &format!("part3 never names the receiver itself: {what}"));
        }
    } else {
        lab.check(p3.is_ok(), "control: without a fault the receiver completes key generation");
    }
    lab.leave();
}
