//! C09 — no delivery history of keygen messages lets honest parties silently diverge.
//! Small scope, exhaustive: two concurrent honest runs A and B; every assignment of
//! {A, B, absent} to each round-one slot and of {(run, addressee)} ∪ {absent} to each
//! round-two slot of a participant.
use crate::lab::*;
use crate::util::*;
use frost_core as fc;
use frost_core::keys::dkg::{self, round1, round2};
use frost_core::{Ciphersuite, Identifier};
use std::collections::BTreeMap;

const V_HISTORIES: u32 = 0; // aux: participant | own run << 4 | round-one assignment code << 8
const V_JOINT: u32 = 1; // aux: bitmask X (which run each participant's round-one contribution comes from)

pub fn cases(thorough: bool, seed: u64) -> Vec<Params> {
    let mut out = vec![];
    let ns: &[u16] = if thorough { &[3, 4] } else { &[3] };
    for &n in ns {
        for t in 2..=n {
            let r1codes = 3u64.pow(n as u32 - 1);
            for part in 0..n as u64 {
                for own in 0..2u64 {
                    if own == 1 && !thorough && part != 0 {
                        continue; // runs A and B are symmetric; quick keeps one representative
                    }
                    for code in 0..r1codes {
                        out.push(Params { n, t, ids: IdSet::Default, subset: vec![], variant: V_HISTORIES, aux: part | (own << 4) | (code << 8), seed });
                    }
                }
            }
            for x in 0..(1u64 << n) {
                out.push(Params { n, t, ids: IdSet::Default, subset: vec![], variant: V_JOINT, aux: x, seed });
            }
        }
    }
    // one non-default identifier set
    out.push(Params { n: 3, t: 2, ids: IdSet::Wide(seed), subset: vec![], variant: V_JOINT, aux: 0b101, seed });
    for code in 0..9u64 {
        out.push(Params { n: 3, t: 2, ids: IdSet::Wide(seed), subset: vec![], variant: V_HISTORIES, aux: 1 | (code << 8), seed });
    }
    out
}

fn consistent<C: Ciphersuite, L: Lab<C>>(lab: &mut L, me: Identifier<C>, t: u16, kp: &fc::keys::KeyPackage<C>, pp: &fc::keys::PublicKeyPackage<C>, commitments: &[&fc::keys::VerifiableSecretSharingCommitment<C>]) {
    let s = kp.signing_share().to_scalar();
    lab.check(*kp.identifier() == me && *kp.min_signers() == t && pp.min_signers() == Some(t), "completed key material records identifier and threshold");
    lab.eq_e(kp.verifying_share().to_element(), g::<C>() * s, "completed: verifying share = G * signing share");
    match pp.verifying_shares().get(&me) {
        Some(vs) => {
            lab.eq_e(kp.verifying_share().to_element(), vs.to_element(), "completed: verifying share = own entry of own public key package");
        }
        None => {
            lab.check(false, "completed: own entry present in own public key package");
        }
    }
    lab.eq_e(kp.verifying_key().to_element(), pp.verifying_key().to_element(), "completed: key package and public key package agree on the group key");
    let mut sum0 = ident::<C>();
    for c in commitments {
        sum0 = sum0 + c.coefficients()[0].value();
    }
    lab.eq_e(pp.verifying_key().to_element(), sum0, "completed: group key = sum of the constant terms of the commitments it was given");
}

pub fn run<C: Ciphersuite, L: Lab<C>>(lab: &mut L, p: &Params) {
    let ids = identifiers::<C>(p);
    let n = ids.len();
    let Some(run_a) = dkg_parts12::<C, L>(lab, p) else { return };
    let Some(run_b) = dkg_parts12::<C, L>(lab, p) else { return };
    let runs = [&run_a, &run_b];

    if p.variant == V_JOINT {
        // every participant i contributes its run-X_i material; all receivers get exactly that
        lab.enter("joint");
        let x: Vec<usize> = (0..n).map(|i| ((p.aux >> i) & 1) as usize).collect();
        let mut kps = BTreeMap::new();
        let mut pubs = vec![];
        for (i, me) in ids.iter().enumerate() {
            let r1: BTreeMap<Identifier<C>, round1::Package<C>> = ids.iter().enumerate().filter(|(j, _)| *j != i).map(|(j, s)| (*s, runs[x[j]].r1[s].clone())).collect();
            let r2: BTreeMap<Identifier<C>, round2::Package<C>> = ids.iter().enumerate().filter(|(j, _)| *j != i).map(|(j, s)| (*s, runs[x[j]].r2[s][me].clone())).collect();
            let p2 = dkg::part2(runs[x[i]].r1_secret[me].clone(), &r1);
            if !lab.check(p2.is_ok(), "part2 completes on a common round-one set") {
                lab.leave();
                return;
            }
            // the round-two shares a sender computes depend only on its own polynomial: those of
            // its own part2 in run X_sender are the ones addressed to `me`
            let p3 = dkg::part3(&p2.unwrap().0, &r1, &r2);
            if !lab.check(p3.is_ok(), "part3 completes when every share belongs to the round-one contribution in the same slot") {
                lab.leave();
                return;
            }
            let (kp, pp) = p3.unwrap();
            let mut comms: Vec<&fc::keys::VerifiableSecretSharingCommitment<C>> = r1.values().map(|p| p.commitment()).collect();
            comms.push(runs[x[i]].r1[me].commitment());
            consistent::<C, L>(lab, *me, p.t, &kp, &pp, &comms);
            kps.insert(*me, kp);
            pubs.push(pp);
        }
        for pp in pubs.iter().skip(1) {
            lab.eq_e(pp.verifying_key().to_element(), pubs[0].verifying_key().to_element(), "all participants completing on one common round-one set hold the same group key");
            for id in &ids {
                lab.eq_e(pp.verifying_shares()[id].to_element(), pubs[0].verifying_shares()[id].to_element(), "… and the same verifying shares");
            }
        }
        let keys: Keys<C> = (kps, pubs[0].clone());
        let msg = lab.message("msg");
        let sess = open_session::<C, L>(lab, &keys, &(0..p.t as usize).collect::<Vec<_>>(), msg.clone());
        if let Some(shares) = sign_all::<C, L>(lab, &keys, &sess) {
            let r = fc::aggregate(&sess.package, &shares, &keys.1);
            if lab.check(r.is_ok(), "they can sign together") {
                let sig = r.unwrap();
                spec_verify::<C, L>(lab, keys.1.verifying_key().to_element(), &msg, *sig.R(), *sig.z(), "the joint signature verifies");
            }
        }
        lab.leave();
        return;
    }

    // ---- per-participant histories
    let pi = (p.aux & 0xf) as usize;
    let own = ((p.aux >> 4) & 1) as usize;
    let mut code = p.aux >> 8;
    let me = ids[pi];
    let senders: Vec<Identifier<C>> = ids.iter().filter(|i| **i != me).copied().collect();
    // round-one slots
    let mut r1: BTreeMap<Identifier<C>, round1::Package<C>> = BTreeMap::new();
    let mut slot_run: BTreeMap<Identifier<C>, Option<usize>> = BTreeMap::new();
    for s in &senders {
        let c = (code % 3) as usize;
        code /= 3;
        if c < 2 {
            r1.insert(*s, runs[c].r1[s].clone());
            slot_run.insert(*s, Some(c));
        } else {
            slot_run.insert(*s, None);
        }
    }
    lab.enter("history");
    let p2 = dkg::part2(runs[own].r1_secret[&me].clone(), &r1);
    let any_absent = slot_run.values().any(|r| r.is_none());
    if any_absent {
        lab.check(p2.is_err(), "part2 fails when a round-one slot is empty");
        // part3 with the honest round-two secret and the same incomplete set fails too
        let r2: BTreeMap<Identifier<C>, round2::Package<C>> = senders.iter().map(|s| (*s, runs[own].r2[s][&me].clone())).collect();
        let p3 = dkg::part3(&runs[own].r2_secret[&me], &r1, &r2);
        lab.check(p3.is_err(), "part3 fails when a round-one slot is empty");
        lab.leave();
        return;
    }
    if !lab.check(p2.is_ok(), "part2 accepts any honest round-one contribution of the right sender in each slot") {
        lab.leave();
        return;
    }
    let (s2, _) = p2.unwrap();
    // The round-one contributions are handed to `part3` again: the network (or the caller's
    // storage) may present, in each slot, the sender's contribution of either run at that point —
    // not necessarily the one `part2` saw. Every such assignment is explored; "matching" refers to
    // the set `part3` is given.
    let n_alt = 1usize << senders.len();
    let mut accepted_total = 0usize;
    for alt in 0..n_alt {
        let mut r1_3: BTreeMap<Identifier<C>, round1::Package<C>> = BTreeMap::new();
        let mut slot_run_3: BTreeMap<Identifier<C>, Option<usize>> = BTreeMap::new();
        for (j, s) in senders.iter().enumerate() {
            let r = (alt >> j) & 1;
            r1_3.insert(*s, runs[r].r1[s].clone());
            slot_run_3.insert(*s, Some(r));
        }
        // all fillings of the round-two slots
        let per_slot: Vec<Vec<Option<(usize, Identifier<C>)>>> = senders
            .iter()
            .map(|s| {
                let mut v = vec![None];
                for r in 0..2 {
                    for a in ids.iter().filter(|a| *a != s) {
                        v.push(Some((r, *a)));
                    }
                }
                v
            })
            .collect();
        let total: usize = per_slot.iter().map(|v| v.len()).product();
        let mut comms: Vec<&fc::keys::VerifiableSecretSharingCommitment<C>> = r1_3.values().map(|p| p.commitment()).collect();
        comms.push(runs[own].r1[&me].commitment());
        let mut accepted = 0usize;
        for h in 0..total {
            let mut k = h;
            let mut r2: BTreeMap<Identifier<C>, round2::Package<C>> = BTreeMap::new();
            let mut matching = true;
            for (j, s) in senders.iter().enumerate() {
                let choice = per_slot[j][k % per_slot[j].len()];
                k /= per_slot[j].len();
                match choice {
                    None => matching = false,
                    Some((r, a)) => {
                        r2.insert(*s, runs[r].r2[s][&a].clone());
                        if Some(r) != slot_run_3[s] || a != me {
                            matching = false;
                        }
                    }
                }
            }
            let m = lab.mark();
            let p3 = dkg::part3(&s2, &r1_3, &r2);
            if matching {
                if lab.check(p3.is_ok(), "part3 completes when every round-two share is addressed to this recipient and belongs to the round-one contribution in its slot") {
                    let (kp, pp) = p3.unwrap();
                    consistent::<C, L>(lab, me, p.t, &kp, &pp, &comms);
                    accepted += 1;
                }
            } else {
                // a share addressed to somebody else, or belonging to the other run's contribution, or missing
                let ok = p3.is_ok();
                lab.expect_reject(m, ok, "part3 accepts a round-two share only if it was addressed to this recipient and belongs to the round-one contribution filed for the same sender");
                if let Ok((kp, pp)) = p3 {
                    consistent::<C, L>(lab, me, p.t, &kp, &pp, &comms);
                }
            }
        }
        lab.check(accepted == 1, "exactly one filling of the round-two slots is the matching one");
        accepted_total += accepted;
    }
    let accepted = if accepted_total == n_alt { 1 } else { 0 };
    lab.check(accepted == 1, "exactly one filling of the round-two slots is the matching one");
    // ... and part3 may be handed FEWER round-one contributions than part2 saw (a slot lost between the
    // calls): every non-empty set of emptied slots, with the round-two slots of the same senders
    // empty as well (the sets agree) or still filled: key generation must not complete for a smaller group
    for gone in 1usize..(1 << senders.len()) {
        let mut r1_3: BTreeMap<Identifier<C>, round1::Package<C>> = BTreeMap::new();
        for (j, s) in senders.iter().enumerate() {
            if gone & (1 << j) == 0 {
                r1_3.insert(*s, r1[s].clone());
            }
        }
        for keep_r2 in [false, true] {
            let mut r2: BTreeMap<Identifier<C>, round2::Package<C>> = BTreeMap::new();
            for (j, s) in senders.iter().enumerate() {
                if gone & (1 << j) == 0 || keep_r2 {
                    if let Some(r) = slot_run[s] {
                        r2.insert(*s, runs[r].r2[s][&me].clone());
                    }
                }
            }
            let p3 = dkg::part3(&s2, &r1_3, &r2);
            lab.check(p3.is_err(), "part3 fails when a round-one slot it is handed is empty (no key material for a smaller group)");
        }
    }
    lab.leave();
}
