//! C10 — refreshing shares keeps the group key, re-links all packages, retires old shares.
use crate::lab::*;
use crate::util::*;
use frost_core as fc;
use frost_core::keys::refresh::*;
use frost_core::keys::{KeyPackage, PublicKeyPackage, SecretShare, SigningShare};
use frost_core::{Ciphersuite, Identifier};
use std::collections::BTreeMap;

const V_DEALER: u32 = 0; // trusted-dealer refresh (aux bit0: refresh twice)
const V_DKG: u32 = 1; // distributed refresh (aux bit0: twice)
const V_MIX: u32 = 2; // old/new mixes must fail (aux: bitmask of signers that use the old share; bit 16: distributed)
const V_REJECT: u32 = 3; // refusals (aux: kind)

pub fn cases(thorough: bool, seed: u64) -> Vec<Params> {
    let mut out = vec![];
    for (n, t) in crate::nt_pairs(thorough) {
        if n > 6 {
            continue;
        }
        for ids in [IdSet::Default, IdSet::Wide(seed)] {
            let rem = subsets(n as usize, t as usize, n as usize);
            for (j, r) in rem.iter().enumerate() {
                if ids != IdSet::Default && r.len() != t as usize && r.len() != n as usize {
                    continue;
                }
                for v in [V_DEALER, V_DKG] {
                    out.push(Params { n, t, ids: ids.clone(), subset: r.clone(), variant: v, aux: (j % 2) as u64, seed });
                }
                if ids == IdSet::Default && (r.len() == t as usize || thorough) {
                    let tt = t as u32;
                    for mask in 1u64..((1u64 << tt) - 1) {
                        if !thorough && tt > 3 && mask.count_ones() != 1 && mask.count_ones() != tt - 1 {
                            continue;
                        }
                        out.push(Params { n, t, ids: ids.clone(), subset: r.clone(), variant: V_MIX, aux: mask | (((j % 2) as u64) << 16), seed });
                    }
                }
            }
        }
        for k in 0..8u64 {
            out.push(Params { n, t, ids: IdSet::Default, subset: (0..n as usize).collect(), variant: V_REJECT, aux: k, seed });
        }
    }
    out
}

type Refreshed<C> = (BTreeMap<Identifier<C>, KeyPackage<C>>, PublicKeyPackage<C>);

fn dealer_refresh<C: Ciphersuite, L: Lab<C>>(lab: &mut L, keys: &Keys<C>, rem: &[Identifier<C>]) -> Option<Refreshed<C>> {
    lab.enter("dealer-refresh");
    // the identifier list is the caller's and need not be ascending: handed over rotated
    let mut rem: Vec<Identifier<C>> = rem.to_vec();
    let by = rem.len() / 2;
    rem.rotate_left(by);
    let rem = &rem[..];
    let r = compute_refreshing_shares::<C, _>(keys.1.clone(), rem, lab.rng());
    if !lab.check(r.is_ok(), "compute_refreshing_shares succeeds for a remaining set of at least t known participants") {
        lab.leave();
        return None;
    }
    let (rshares, newpub) = r.unwrap();
    lab.check(rshares.len() == rem.len(), "one refreshing share per remaining participant");
    let mut kps = BTreeMap::new();
    // documented: the shares "must be sent to the participants in the same order as `identifiers`"
    for (i, rs) in rshares.into_iter().enumerate() {
        let Some(id) = rem.get(i).copied() else { break };
        lab.check(*rs.identifier() == id, "refreshing share number i is the one for identifier number i of the list handed in (documented order)");
        let r = refresh_share(rs, &keys.0[&id]);
        if !lab.check(r.is_ok(), "refresh_share accepts the dealer's refreshing share") {
            lab.leave();
            return None;
        }
        kps.insert(id, r.unwrap());
    }
    lab.leave();
    Some((kps, newpub))
}

fn dkg_refresh<C: Ciphersuite, L: Lab<C>>(lab: &mut L, keys: &Keys<C>, rem: &[Identifier<C>], t: u16) -> Option<(Refreshed<C>, Vec<PublicKeyPackage<C>>)> {
    lab.enter("dkg-refresh");
    let m = rem.len() as u16;
    let mut s1 = BTreeMap::new();
    let mut p1 = BTreeMap::new();
    for id in rem {
        let r = refresh_dkg_part1::<C, _>(*id, m, t, lab.rng());
        if !lab.check(r.is_ok(), "refresh_dkg_part1 succeeds") {
            lab.leave();
            return None;
        }
        let (s, p) = r.unwrap();
        s1.insert(*id, s);
        p1.insert(*id, p);
    }
    let mut s2 = BTreeMap::new();
    let mut p2: BTreeMap<Identifier<C>, BTreeMap<Identifier<C>, fc::keys::dkg::round2::Package<C>>> = BTreeMap::new();
    for id in rem {
        let others: BTreeMap<_, _> = p1.iter().filter(|(k, _)| *k != id).map(|(k, v)| (*k, v.clone())).collect();
        let r = refresh_dkg_part2(s1[id].clone(), &others);
        if !lab.check(r.is_ok(), "refresh_dkg_part2 accepts honest round-one packages") {
            lab.leave();
            return None;
        }
        let (s, p) = r.unwrap();
        s2.insert(*id, s);
        p2.insert(*id, p);
    }
    let mut kps = BTreeMap::new();
    let mut pubs = vec![];
    for id in rem {
        let r1o: BTreeMap<_, _> = p1.iter().filter(|(k, _)| *k != id).map(|(k, v)| (*k, v.clone())).collect();
        let r2o: BTreeMap<_, _> = p2.iter().filter(|(k, _)| *k != id).map(|(k, v)| (*k, v[id].clone())).collect();
        let r = refresh_dkg_shares(&s2[id], &r1o, &r2o, keys.1.clone(), keys.0[id].clone());
        if !lab.check(r.is_ok(), "refresh_dkg_shares accepts honest packages") {
            lab.leave();
            return None;
        }
        let (kp, pp) = r.unwrap();
        kps.insert(*id, kp);
        pubs.push(pp);
    }
    lab.leave();
    let first = pubs[0].clone();
    Some(((kps, first), pubs))
}

fn check_links<C: Ciphersuite, L: Lab<C>>(lab: &mut L, p: &Params, sk: frost_core::Scalar<C>, old: &Keys<C>, new: &Refreshed<C>, rem: &[Identifier<C>]) {
    lab.enter("refreshed-consistency");
    let vk = *old.1.verifying_key();
    lab.eq_e(new.1.verifying_key().to_element(), vk.to_element(), "group verifying key unchanged by the refresh");
    lab.check(new.1.min_signers() == Some(p.t), "refreshed public key package records the same threshold");
    lab.check(new.1.verifying_shares().keys().copied().collect::<Vec<_>>() == rem.to_vec(), "refreshed public key package lists exactly the remaining participants");
    for id in rem {
        let kp = &new.0[id];
        lab.check(kp.identifier() == id && *kp.min_signers() == p.t, "refreshed key package keeps identifier and threshold");
        lab.eq_e(kp.verifying_key().to_element(), vk.to_element(), "refreshed key package keeps the group key");
        let s = kp.signing_share().to_scalar();
        lab.eq_e(kp.verifying_share().to_element(), g::<C>() * s, "verifying share of the refreshed key package = G * new signing share");
        lab.eq_e(
            kp.verifying_share().to_element(),
            new.1.verifying_shares()[id].to_element(),
            "verifying share of the refreshed key package = its entry in the refreshed public key package",
        );
        lab.eq_e(new.1.verifying_shares()[id].to_element(), g::<C>() * s, "refreshed public key package entry = G * new signing share");
    }
    lab.leave();
    lab.enter("refreshed-reconstruct");
    let all: Vec<KeyPackage<C>> = rem.iter().map(|i| new.0[i].clone()).collect();
    for sub in subsets(rem.len(), p.t as usize, p.t as usize).into_iter().take(10) {
        let kps: Vec<KeyPackage<C>> = sub.iter().map(|i| all[*i].clone()).collect();
        match fc::keys::reconstruct(&kps) {
            Ok(k) => {
                lab.eq_s(k.to_scalar(), sk, "t refreshed shares interpolate to the original key");
            }
            Err(_) => {
                lab.check(false, "reconstruct succeeds on t refreshed shares");
            }
        }
    }
    lab.leave();
}

fn sign_with<C: Ciphersuite, L: Lab<C>>(lab: &mut L, keys: &Refreshed<C>, signers: &[usize], what: &str) {
    lab.enter("sign-after-refresh");
    let msg = lab.message("msg");
    let k: Keys<C> = (keys.0.clone(), keys.1.clone());
    let sess = open_session::<C, L>(lab, &k, signers, msg.clone());
    if let Some(shares) = sign_all::<C, L>(lab, &k, &sess) {
        let r = fc::aggregate(&sess.package, &shares, &keys.1);
        if lab.check(r.is_ok(), what) {
            let sig = r.unwrap();
            spec_verify::<C, L>(lab, keys.1.verifying_key().to_element(), &msg, *sig.R(), *sig.z(), "signature by refreshed participants verifies under the unchanged group key");
        }
    }
    lab.leave();
}

pub fn run<C: Ciphersuite, L: Lab<C>>(lab: &mut L, p: &Params) {
    let Some((sk, _shares, keys)) = dealer_keys::<C, L>(lab, p) else { return };
    let ids = identifiers::<C>(p);
    let rem: Vec<Identifier<C>> = p.subset.iter().map(|i| ids[*i]).collect();
    let t = p.t as usize;
    match p.variant {
        V_DEALER | V_DKG => {
            let first: Refreshed<C> = if p.variant == V_DEALER {
                match dealer_refresh::<C, L>(lab, &keys, &rem) {
                    Some(x) => x,
                    None => return,
                }
            } else {
                match dkg_refresh::<C, L>(lab, &keys, &rem, p.t) {
                    Some((x, pubs)) => {
                        for pp in pubs.iter() {
                            lab.check(pp == &x.1 || {
                                // field-wise (Element eq is semantic)
                                pp.verifying_shares().len() == x.1.verifying_shares().len()
                            }, "all participants obtain the same refreshed public key package");
                            for (id, vs) in pp.verifying_shares() {
                                lab.eq_e(vs.to_element(), x.1.verifying_shares()[id].to_element(), "refreshed public key packages agree entry by entry");
                            }
                        }
                        x
                    }
                    None => return,
                }
            };
            check_links::<C, L>(lab, p, sk, &keys, &first, &rem);
            let last = if p.aux & 1 == 1 {
                // refresh again from the refreshed state (same remaining set)
                let k2: Keys<C> = (first.0.clone(), first.1.clone());
                let second = if p.variant == V_DEALER {
                    dealer_refresh::<C, L>(lab, &k2, &rem)
                } else {
                    dkg_refresh::<C, L>(lab, &k2, &rem, p.t).map(|x| x.0)
                };
                let Some(second) = second else { return };
                check_links::<C, L>(lab, p, sk, &k2, &second, &rem);
                second
            } else {
                first
            };
            // any t refreshed participants sign: the first t and the last t of the remaining set
            let m = rem.len();
            sign_with::<C, L>(lab, &last, &(0..t).collect::<Vec<_>>(), "aggregate succeeds for t refreshed participants");
            if m > t {
                sign_with::<C, L>(lab, &last, &((m - t)..m).collect::<Vec<_>>(), "aggregate succeeds for another t refreshed participants");
            }
        }
        V_MIX => {
            let distributed = (p.aux >> 16) & 1 == 1;
            let new = if distributed { dkg_refresh::<C, L>(lab, &keys, &rem, p.t).map(|x| x.0) } else { dealer_refresh::<C, L>(lab, &keys, &rem) };
            let Some(new) = new else { return };
            let mask = p.aux & 0xffff;
            // signer set: the first t remaining participants; those in `mask` use their pre-refresh package
            let mut kmix = new.0.clone();
            for (j, id) in rem.iter().take(t).enumerate() {
                if mask & (1 << j) != 0 {
                    kmix.insert(*id, keys.0[id].clone());
                }
            }
            lab.enter("mixed-old-new");
            let msg = lab.message("msg");
            let k: Keys<C> = (kmix, new.1.clone());
            let sess = open_session::<C, L>(lab, &k, &(0..t).collect::<Vec<_>>(), msg);
            if let Some(shares) = sign_all::<C, L>(lab, &k, &sess) {
                for (pubs, name) in [(&new.1, "refreshed"), (&keys.1, "pre-refresh")] {
                    let m = lab.mark();
                    let r = fc::aggregate(&sess.package, &shares, pubs);
                    lab.expect_reject(m, r.is_ok(), &format!("aggregate fails for a signer set mixing old and new shares ({name} public key package)"));
                    let m = lab.mark();
                    let r = fc::aggregate_custom(&sess.package, &shares, pubs, fc::CheaterDetection::Disabled);
                    lab.expect_reject(m, r.is_ok(), &format!("aggregate without cheater detection fails for a mixed signer set ({name} public key package)"));
                }
            }
            lab.leave();
        }
        _ => {
            lab.enter("refusals");
            match p.aux {
                0 => {
                    // fewer than t remaining participants
                    if t >= 2 {
                        let few: Vec<Identifier<C>> = ids.iter().take(t - 1).copied().collect();
                        let r = compute_refreshing_shares::<C, _>(keys.1.clone(), &few, lab.rng());
                        lab.check(r.is_err(), "fewer than t remaining participants are refused");
                    }
                }
                1 => {
                    // unknown participant
                    let mut l: Vec<Identifier<C>> = ids.clone();
                    l.pop();
                    l.push(Identifier::<C>::try_from(4242).unwrap());
                    let r = compute_refreshing_shares::<C, _>(keys.1.clone(), &l, lab.rng());
                    lab.check(r.is_err(), "a refresh naming an unknown participant is refused");
                }
                2 => {
                    // threshold change at the participant: key package claims another threshold
                    if let Some((new_shares, _)) = compute_refreshing_shares::<C, _>(keys.1.clone(), &ids, lab.rng()).ok() {
                        let rs = new_shares[0].clone();
                        let id = *rs.identifier();
                        let kp = &keys.0[&id];
                        let other = KeyPackage::new(id, *kp.signing_share(), *kp.verifying_share(), *kp.verifying_key(), p.t + 1);
                        let r = refresh_share(rs, &other);
                        lab.check(r.is_err(), "a refresh that would change the threshold is refused");
                    }
                }
                3 => {
                    // refreshing share with non-zero constant term c0: value f(i)+c0 against the dealer's commitment
                    if let Some((new_shares, _)) = compute_refreshing_shares::<C, _>(keys.1.clone(), &ids, lab.rng()).ok() {
                        let rs = new_shares[(p.seed as usize) % new_shares.len()].clone();
                        let c0 = lab.adv_scalar("c0");
                        lab.assume_ne_s(c0, zero::<C>(), "the refreshing polynomial has a non-zero constant term c0");
                        let bad = SecretShare::new(*rs.identifier(), SigningShare::new(rs.signing_share().to_scalar() + c0), rs.commitment().clone());
                        let id = *rs.identifier();
                        let m = lab.mark();
                        let r = refresh_share(bad, &keys.0[&id]);
                        lab.expect_reject(m, r.is_ok(), "a refreshing share whose polynomial has a non-zero constant term is rejected");
                    }
                }
                4 => {
                    // distributed variant: a round-two share from a polynomial with non-zero constant term
                    let m = ids.len() as u16;
                    let mut s1 = BTreeMap::new();
                    let mut p1 = BTreeMap::new();
                    for id in &ids {
                        if let Ok((s, pk)) = refresh_dkg_part1::<C, _>(*id, m, p.t, lab.rng()) {
                            s1.insert(*id, s);
                            p1.insert(*id, pk);
                        }
                    }
                    let me = ids[0];
                    let mut s2 = None;
                    let mut p2: BTreeMap<Identifier<C>, fc::keys::dkg::round2::Package<C>> = BTreeMap::new();
                    for id in &ids {
                        let others: BTreeMap<_, _> = p1.iter().filter(|(k, _)| *k != id).map(|(k, v)| (*k, v.clone())).collect();
                        if let Ok((s, pk)) = refresh_dkg_part2(s1[id].clone(), &others) {
                            if *id == me {
                                s2 = Some(s);
                            } else {
                                p2.insert(*id, pk[&me].clone());
                            }
                        }
                    }
                    if let Some(s2) = s2 {
                        let cheat = ids[1];
                        let c0 = lab.adv_scalar("c0");
                        lab.assume_ne_s(c0, zero::<C>(), "the cheating sender's refreshing polynomial has a non-zero constant term");
                        let honest = p2[&cheat].signing_share().to_scalar();
                        p2.insert(cheat, fc::keys::dkg::round2::Package::new(SigningShare::new(honest + c0)));
                        let r1o: BTreeMap<_, _> = p1.iter().filter(|(k, _)| **k != me).map(|(k, v)| (*k, v.clone())).collect();
                        let m = lab.mark();
                        let r = refresh_dkg_shares(&s2, &r1o, &p2, keys.1.clone(), keys.0[&me].clone());
                        lab.expect_reject(m, r.is_ok(), "a distributed-refresh share from a polynomial with non-zero constant term is rejected");
                    }
                }
                5 => {
                    // distributed variant with a different threshold
                    let m = ids.len() as u16;
                    if p.t < m {
                        let mut s1 = BTreeMap::new();
                        let mut p1 = BTreeMap::new();
                        for id in &ids {
                            if let Ok((s, pk)) = refresh_dkg_part1::<C, _>(*id, m, p.t + 1, lab.rng()) {
                                s1.insert(*id, s);
                                p1.insert(*id, pk);
                            }
                        }
                        let me = ids[0];
                        let others: BTreeMap<_, _> = p1.iter().filter(|(k, _)| **k != me).map(|(k, v)| (*k, v.clone())).collect();
                        if let Ok((s2, _)) = refresh_dkg_part2(s1[&me].clone(), &others) {
                            let mut p2 = BTreeMap::new();
                            for id in ids.iter().skip(1) {
                                let o: BTreeMap<_, _> = p1.iter().filter(|(k, _)| *k != id).map(|(k, v)| (*k, v.clone())).collect();
                                if let Ok((_, pk)) = refresh_dkg_part2(s1[id].clone(), &o) {
                                    p2.insert(*id, pk[&me].clone());
                                }
                            }
                            let r = refresh_dkg_shares(&s2, &others, &p2, keys.1.clone(), keys.0[&me].clone());
                            lab.check(r.is_err(), "a distributed refresh with another threshold is refused");
                        }
                    }
                }
                7 => {
                    // distributed variant, a CONSISTENT cheater: it takes part with an ordinary key-generation
                    // contribution (dkg::part1: full-length commitment, non-zero constant term, valid proof)
                    // and shares consistent with it. Every honest receiver must refuse at the first step
                    // that consumes it; if not, the refreshed group no longer signs for the old key.
                    let m = ids.len() as u16;
                    let cheat = ids[(p.seed as usize + 1) % ids.len()];
                    let mut s1 = BTreeMap::new();
                    let mut p1 = BTreeMap::new();
                    for id in ids.iter().filter(|i| **i != cheat) {
                        if let Ok((s, pk)) = refresh_dkg_part1::<C, _>(*id, m, p.t, lab.rng()) {
                            s1.insert(*id, s);
                            p1.insert(*id, pk);
                        }
                    }
                    if let Ok((_, cheat_pkg)) = fc::keys::dkg::part1::<C, _>(cheat, m, p.t, lab.rng()) {
                        p1.insert(cheat, cheat_pkg);
                        for me in ids.iter().filter(|i| **i != cheat) {
                            let others: BTreeMap<_, _> = p1.iter().filter(|(k, _)| *k != me).map(|(k, v)| (*k, v.clone())).collect();
                            let r = refresh_dkg_part2(s1[me].clone(), &others);
                            lab.check(r.is_err(), "a distributed refresh refuses a contribution that is an ordinary key-generation package (non-zero constant term)");
                        }
                    }
                }
                6 | _ => {
                    // a removed participant cannot sign with the refreshed group
                    if ids.len() > t {
                        let rem2: Vec<Identifier<C>> = ids.iter().skip(1).copied().collect();
                        if let Some(new) = dealer_refresh::<C, L>(lab, &keys, &rem2) {
                            let mut kmix = new.0.clone();
                            kmix.insert(ids[0], keys.0[&ids[0]].clone());
                            let k: Keys<C> = (kmix, new.1.clone());
                            let msg = lab.message("msg");
                            let sess = open_session::<C, L>(lab, &k, &(0..t).collect::<Vec<_>>(), msg);
                            if let Some(shares) = sign_all::<C, L>(lab, &k, &sess) {
                                let m = lab.mark();
                                let r = fc::aggregate(&sess.package, &shares, &new.1);
                                lab.expect_reject(m, r.is_ok(), "a signer set including a removed participant fails (refreshed public key package)");
                                let m = lab.mark();
                                let r = fc::aggregate(&sess.package, &shares, &keys.1);
                                lab.expect_reject(m, r.is_ok(), "a signer set including a removed participant fails (pre-refresh public key package)");
                            }
                        }
                    }
                }
            }
            lab.leave();
        }
    }
}
