//! C11 — share repair returns exactly the lost share and needs a threshold of helpers.
use crate::lab::*;
use crate::util::*;
use frost_core as fc;
use frost_core::keys::repairable::*;
use frost_core::{Ciphersuite, Field, Group, Identifier};
use std::collections::BTreeMap;

const V_EXISTING: u32 = 0; // aux = index of the repaired participant
const V_NEW: u32 = 1; // aux selects a fresh identifier
const V_REFUSE: u32 = 2;

pub fn cases(thorough: bool, seed: u64) -> Vec<Params> {
    let mut out = vec![];
    for (n, t) in crate::nt_pairs(thorough) {
        if n < 3 || t > n - 1 {
            // repair needs t helpers among the other n-1 participants
            if t > n - 1 {
                continue;
            }
        }
        for (k, ids) in [IdSet::Default, IdSet::Wide(seed), IdSet::U16(u16_extreme_set(n))].into_iter().enumerate() {
            let mut hs = subsets(n as usize, t as usize, n as usize - 1);
            if k > 0 || n > 5 {
                let lo = hs.iter().find(|h| h.len() == t as usize).cloned();
                let hi = hs.iter().rev().find(|h| h.len() == n as usize - 1).cloned();
                hs = lo.into_iter().chain(hi).collect();
                hs.dedup();
            }
            for (hi, h) in hs.into_iter().enumerate() {
                for r in 0..n as usize {
                    if !h.contains(&r) {
                        out.push(Params { n, t, ids: ids.clone(), subset: h.clone(), variant: V_EXISTING, aux: r as u64, seed });
                    }
                }
                out.push(Params { n, t, ids: ids.clone(), subset: h.clone(), variant: V_NEW, aux: (h.len() % 3) as u64, seed });
                // the helper list is the caller's: it need not be ascending. Reversed, rotated
                // (largest identifier first / in the middle) and — thorough — every rotation.
                let mut orders: Vec<Vec<usize>> = vec![];
                let mut rev = h.clone();
                rev.reverse();
                orders.push(rev);
                for rot in 1..h.len() {
                    if thorough || rot == 1 || rot == h.len() - 1 {
                        let mut o = h.clone();
                        o.rotate_left(rot);
                        orders.push(o);
                    }
                }
                orders.dedup();
                let r = (0..n as usize).find(|r| !h.contains(r)).unwrap_or(0);
                for (oi, o) in orders.into_iter().enumerate() {
                    if !thorough && k > 0 && oi > 0 {
                        continue;
                    }
                    if (hi + oi) % 2 == 0 {
                        out.push(Params { n, t, ids: ids.clone(), subset: o, variant: V_EXISTING, aux: r as u64, seed });
                    } else {
                        out.push(Params { n, t, ids: ids.clone(), subset: o, variant: V_NEW, aux: (oi % 3) as u64, seed });
                    }
                }
            }
        }
        for a in 0..3u64 {
            out.push(Params { n, t, ids: IdSet::Default, subset: (0..t as usize).collect(), variant: V_REFUSE, aux: a, seed });
        }
    }
    out
}

fn lagrange_at<C: Ciphersuite>(xs: &[frost_core::Scalar<C>], xi: frost_core::Scalar<C>, at: frost_core::Scalar<C>) -> frost_core::Scalar<C> {
    let mut num = one::<C>();
    let mut den = one::<C>();
    for xj in xs {
        if *xj == xi {
            continue;
        }
        num = num * (at - *xj);
        den = den * (xi - *xj);
    }
    num * <<C::Group as Group>::Field as Field>::invert(&den).unwrap()
}

pub fn run<C: Ciphersuite, L: Lab<C>>(lab: &mut L, p: &Params) {
    let Some((_sk, dealer_shares, keys)) = dealer_keys::<C, L>(lab, p) else { return };
    let ids: Vec<Identifier<C>> = keys.0.keys().copied().collect();
    let helpers: Vec<Identifier<C>> = p.subset.iter().map(|i| ids[*i]).collect();
    let t = p.t as usize;

    if p.variant == V_REFUSE {
        lab.enter("refusals");
        let target = ids[ids.len() - 1];
        match p.aux {
            0 => {
                let few: Vec<Identifier<C>> = ids.iter().take(t - 1).copied().collect();
                if !few.is_empty() {
                    let r = repair_share_part1(&few, &keys.0[&few[0]], lab.rng(), target);
                    lab.check(r.is_err(), "fewer than t helpers are refused");
                }
            }
            1 => {
                let mut dup: Vec<Identifier<C>> = ids.iter().take(t).copied().collect();
                dup.push(dup[0]);
                let r = repair_share_part1(&dup, &keys.0[&dup[0]], lab.rng(), target);
                lab.check(r.is_err(), "duplicate helpers are refused");
                // a duplicate that brings the list up to t entries must not count as t helpers
                let mut short: Vec<Identifier<C>> = ids.iter().take(t - 1).copied().collect();
                if !short.is_empty() {
                    short.push(short[0]);
                    let r = repair_share_part1(&short, &keys.0[&short[0]], lab.rng(), target);
                    lab.check(r.is_err(), "t-1 distinct helpers padded with a duplicate are refused");
                }
            }
            _ => {
                if ids.len() > t {
                    let others: Vec<Identifier<C>> = ids.iter().skip(1).take(t).copied().collect();
                    if others.len() == t && !others.contains(&ids[0]) {
                        let r = repair_share_part1(&others, &keys.0[&ids[0]], lab.rng(), target);
                        lab.check(r.is_err(), "a helper list omitting the calling helper is refused");
                    }
                }
            }
        }
        lab.leave();
        return;
    }

    let (target, existing): (Identifier<C>, bool) = if p.variant == V_EXISTING {
        (ids[p.aux as usize], true)
    } else {
        let cand = match p.aux {
            0 => Identifier::<C>::try_from(999u16).unwrap(),
            1 => Identifier::<C>::new(scalar_from_limbs::<C>(&[7, 11, 13, 17])).unwrap(),
            _ => Identifier::<C>::new(zero::<C>() - one::<C>() - one::<C>() - one::<C>()).unwrap(), // q-3
        };
        if ids.contains(&cand) {
            return;
        }
        (cand, false)
    };

    lab.enter("repair");
    let xs: Vec<_> = helpers.iter().map(|h| h.to_scalar()).collect();
    let mut all_deltas: BTreeMap<Identifier<C>, BTreeMap<Identifier<C>, Delta<C>>> = BTreeMap::new();
    for h in &helpers {
        let r = repair_share_part1(&helpers, &keys.0[h], lab.rng(), target);
        if !lab.check(r.is_ok(), "repair_share_part1 succeeds for t or more distinct helpers including the caller") {
            lab.leave();
            return;
        }
        let d = r.unwrap();
        lab.check(d.keys().copied().collect::<Vec<_>>() == { let mut s = helpers.clone(); s.sort(); s }, "one outgoing value per helper");
        let mut sum = zero::<C>();
        for v in d.values() {
            sum = sum + v.to_scalar();
        }
        let zeta = lagrange_at::<C>(&xs, h.to_scalar(), target.to_scalar());
        lab.eq_s(sum, zeta * keys.0[h].signing_share().to_scalar(), "a helper's outgoing values sum to its Lagrange-weighted share");
        all_deltas.insert(*h, d);
    }
    let mut sigmas = vec![];
    for j in &helpers {
        // (no indexing: a missing entry is a finding of the code under test, not a harness panic)
        let incoming: Vec<Delta<C>> = helpers.iter().filter_map(|i| all_deltas.get(i).and_then(|m| m.get(j)).copied()).collect();
        if !lab.check(incoming.len() == helpers.len(), "every helper sent a value to every helper") {
            lab.leave();
            return;
        }
        sigmas.push(repair_share_part2::<C>(&incoming));
    }
    let r = repair_share_part3(&sigmas, target, &keys.1);
    if !lab.check(r.is_ok(), "repair_share_part3 succeeds") {
        lab.leave();
        return;
    }
    let kp = r.unwrap();
    let s = kp.signing_share().to_scalar();
    lab.check(*kp.identifier() == target && *kp.min_signers() == p.t, "repaired key package carries the identifier and the threshold");
    lab.eq_e(kp.verifying_key().to_element(), keys.1.verifying_key().to_element(), "repaired key package carries the group key");
    lab.eq_e(kp.verifying_share().to_element(), g::<C>() * s, "repaired verifying share = G * repaired signing share");
    // the group polynomial in its public form (the dealer's commitment): G * share = sum_k phi_k * id^k
    if let Some(any) = dealer_shares.values().next() {
        let x = target.to_scalar();
        let mut pw = one::<C>();
        let mut acc = ident::<C>();
        for phi in any.commitment().coefficients() {
            acc = acc + phi.value() * pw;
            pw = pw * x;
        }
        lab.eq_e(g::<C>() * s, acc, "repaired share = the group polynomial evaluated at the participant's identifier (G * share = sum_k phi_k * id^k)");
    }
    // a public key package that records no threshold (pre-3.0 form): the repaired key package must not
    // come out with a threshold below t (either the call refuses, or the threshold is carried over)
    {
        let nomin = fc::keys::PublicKeyPackage::<C>::new(keys.1.verifying_shares().clone(), *keys.1.verifying_key(), None);
        match repair_share_part3(&sigmas, target, &nomin) {
            Err(_) => {
                lab.check(true, "repair with a public key package that records no threshold is refused");
            }
            Ok(kp2) => {
                lab.check(*kp2.min_signers() >= p.t, "a repaired key package never records a threshold below t");
            }
        }
    }
    if existing {
        lab.eq_s(s, keys.0[&target].signing_share().to_scalar(), "repaired share = the share that was lost");
        lab.eq_e(kp.verifying_share().to_element(), keys.1.verifying_shares()[&target].to_element(), "repaired verifying share = public key package entry");
    }
    lab.leave();
    if existing {
        // the repaired participant signs with t-1 others
        lab.enter("sign-after-repair");
        let mut kmap = keys.0.clone();
        kmap.insert(target, kp);
        let k2: Keys<C> = (kmap, keys.1.clone());
        let ti = ids.iter().position(|i| *i == target).unwrap();
        let mut signers = vec![ti];
        for i in 0..ids.len() {
            if signers.len() < t && i != ti {
                signers.push(i);
            }
        }
        signers.sort();
        let msg = lab.message("msg");
        let sess = open_session::<C, L>(lab, &k2, &signers, msg.clone());
        if let Some(shares) = sign_all::<C, L>(lab, &k2, &sess) {
            let r = fc::aggregate(&sess.package, &shares, &keys.1);
            if lab.check(r.is_ok(), "the repaired participant signs with t-1 others") {
                let sig = r.unwrap();
                spec_verify::<C, L>(lab, keys.1.verifying_key().to_element(), &msg, *sig.R(), *sig.z(), "signature with the repaired share verifies");
            }
        }
        lab.leave();
    }
}
