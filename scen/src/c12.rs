//! C12 (round-trip / framing half) — every wire type decodes back to an equal value in the
//! binary and in the JSON form; wrong format version, wrong ciphersuite id, truncated or
//! extended strings, zero identifiers and zero signing keys are rejected. Canonicity of the
//! real suites' fixed-size encodings is engine E2 (K2–K5).
use crate::lab::*;
use crate::util::*;
use frost_core as fc;
use frost_core::keys::dkg::{round1, round2};
use frost_core::keys::repairable::{Delta, Sigma};
use frost_core::keys::{CoefficientCommitment, KeyPackage, PublicKeyPackage, SecretShare, SigningShare, VerifiableSecretSharingCommitment, VerifyingShare};
use frost_core::round1::{Nonce, NonceCommitment, SigningCommitments, SigningNonces};
use frost_core::{Ciphersuite, Identifier};
use frost_rerandomized::RandomizedCiphersuite;

pub fn cases(thorough: bool, seed: u64) -> Vec<Params> {
    let mut out = vec![];
    for (n, t) in crate::nt_pairs(thorough) {
        if n > 5 {
            continue;
        }
        for ids in [IdSet::Default, IdSet::Wide(seed), IdSet::U16(u16_extreme_set(n))] {
            out.push(Params { n, t, ids, subset: (0..t as usize).collect(), variant: 0, aux: 0, seed });
        }
    }
    out.push(Params { n: 2, t: 2, ids: IdSet::Default, subset: vec![0, 1], variant: 1, aux: 0, seed });
    out
}

/// binary and JSON round-trip of a package type + framing rejections on its binary form
macro_rules! wire {
    ($lab:expr, $val:expr, $ty:ty, $what:expr) => {
        wire!($lab, $val, $ty, $what, true)
    };
    ($lab:expr, $val:expr, $ty:ty, $what:expr, $header:expr) => {{
        let v = &$val;
        match v.serialize() {
            Ok(bytes) => {
                match <$ty>::deserialize(&bytes) {
                    Ok(back) => {
                        $lab.check(&back == v, &format!("{}: binary decoding returns an equal value", $what));
                        if let Ok(b2) = back.serialize() {
                            $lab.eq_bytes(&b2, &bytes, &format!("{}: re-encoding the decoded value reproduces the bytes", $what));
                        }
                    }
                    Err(_) => {
                        $lab.check(false, &format!("{}: its own binary encoding decodes", $what));
                    }
                }
                if $header {
                    // format version
                    let mut wrong = bytes.clone();
                    wrong[0] = 1;
                    $lab.check(<$ty>::deserialize(&wrong).is_err(), &format!("{}: a wrong format version is rejected", $what));
                    // ciphersuite id (bytes 1..5)
                    for k in 1..5 {
                        let mut wrong = bytes.clone();
                        wrong[k] ^= 0x40;
                        $lab.check(<$ty>::deserialize(&wrong).is_err(), &format!("{}: another ciphersuite's identifier is rejected", $what));
                    }
                }
                // wrong length (packages are variable-length postcard encodings: the property's
                // "wrong length" clause is about fixed-size encodings, checked by `prim!`; trailing
                // bytes after a complete package are tolerated by postcard and not demanded here)
                if !$what.starts_with("PublicKeyPackage") {
                    $lab.check(<$ty>::deserialize(&bytes[..bytes.len() - 1]).is_err(), &format!("{}: a truncated string is rejected", $what));
                }
                $lab.check(<$ty>::deserialize(&[]).is_err(), &format!("{}: the empty string is rejected", $what));
            }
            Err(_) => {
                $lab.check(false, &format!("{}: serialises", $what));
            }
        }
        match serde_json::to_string(v) {
            Ok(js) => {
                match serde_json::from_str::<$ty>(&js) {
                    Ok(back) => {
                        $lab.check(&back == v, &format!("{}: JSON decoding returns an equal value", $what));
                    }
                    Err(_) => {
                        $lab.check(false, &format!("{}: its own JSON encoding decodes", $what));
                    }
                }
                // the other ways a JSON document reaches a decoder: from a reader (no borrowing from
                // the input), from a parsed `Value`, and with (equivalent) escaped characters
                match serde_json::from_reader::<_, $ty>(js.as_bytes()) {
                    Ok(back) => {
                        $lab.check(&back == v, &format!("{}: JSON decoding from a reader returns an equal value", $what));
                    }
                    Err(_) => {
                        $lab.check(false, &format!("{}: its own JSON encoding decodes from a reader", $what));
                    }
                }
                match serde_json::to_value(v).ok().and_then(|val| serde_json::from_value::<$ty>(val).ok()) {
                    Some(back) => {
                        $lab.check(&back == v, &format!("{}: JSON decoding from a parsed value returns an equal value", $what));
                    }
                    None => {
                        $lab.check(false, &format!("{}: its own JSON value decodes", $what));
                    }
                }
                let escaped = js.replace('-', "\\u002d");
                match serde_json::from_str::<$ty>(&escaped) {
                    Ok(back) => {
                        $lab.check(&back == v, &format!("{}: JSON with escaped characters decodes to an equal value", $what));
                    }
                    Err(_) => {
                        $lab.check(false, &format!("{}: the same JSON document with \\u002d for '-' decodes", $what));
                    }
                }
            }
            Err(_) => {
                $lab.check(false, &format!("{}: serialises to JSON", $what));
            }
        }
    }};
}
const C_ID_PLACEHOLDER: &str = "\u{0}";

/// fixed-size primitive: decode(encode(x)) = x, wrong lengths rejected
macro_rules! prim {
    ($lab:expr, $val:expr, $ty:ty, $ser:expr, $what:expr) => {{
        let v = &$val;
        let bytes: Vec<u8> = $ser(v);
        match <$ty>::deserialize(&bytes) {
            Ok(back) => {
                $lab.check(&back == v, &format!("{}: decoding returns an equal value", $what));
                let b2: Vec<u8> = $ser(&back);
                $lab.eq_bytes(&b2, &bytes, &format!("{}: re-encoding reproduces the bytes", $what));
            }
            Err(_) => {
                $lab.check(false, &format!("{}: its own encoding decodes", $what));
            }
        }
        $lab.check(<$ty>::deserialize(&bytes[..bytes.len() - 1]).is_err(), &format!("{}: a truncated string is rejected", $what));
        let mut longer = bytes.clone();
        longer.push(0);
        $lab.check(<$ty>::deserialize(&longer).is_err(), &format!("{}: a string with a trailing byte is rejected", $what));
    }};
}

pub fn run<C: RandomizedCiphersuite, L: Lab<C>>(lab: &mut L, p: &Params) {
    if p.variant == 1 {
        lab.enter("json-ciphersuite-id");
        // the self-describing form names the ciphersuite: another suite's name is rejected
        let Some((_sk, _sh, keys)) = dealer_keys::<C, L>(lab, p) else { return };
        let id = *keys.0.keys().next().unwrap();
        if let Ok(js) = serde_json::to_string(&keys.0[&id]) {
            lab.check(js.contains(C::ID), "the JSON form carries the ciphersuite identifier");
            let other = js.replace(C::ID, "FROST-SOME-OTHER-SUITE-v1");
            lab.check(serde_json::from_str::<KeyPackage<C>>(&other).is_err(), "JSON with another ciphersuite's identifier is rejected");
            let v1 = js.replacen("\"version\":0", "\"version\":1", 1);
            if v1 != js {
                lab.check(serde_json::from_str::<KeyPackage<C>>(&v1).is_err(), "JSON with another format version is rejected");
            }
            let extra = js.replacen('{', "{\"unknown_field\":1,", 1);
            lab.check(serde_json::from_str::<KeyPackage<C>>(&extra).is_err(), "JSON with an unknown field is rejected");
        }
        // zero identifier / zero signing key
        let zero_bytes = ser_s::<C>(&zero::<C>());
        lab.check(Identifier::<C>::deserialize(&zero_bytes).is_err(), "the zero identifier is rejected");
        lab.check(fc::SigningKey::<C>::deserialize(&zero_bytes).is_err(), "the zero signing key is rejected");
        lab.check(fc::SigningKey::<C>::from_scalar(zero::<C>()).is_err(), "SigningKey::from_scalar refuses zero");
        lab.leave();
        return;
    }
    let Some((_sk, shares, keys)) = dealer_keys::<C, L>(lab, p) else { return };
    let ids: Vec<Identifier<C>> = keys.0.keys().copied().collect();
    let msg = lab.message("msg");
    let sess = open_session::<C, L>(lab, &keys, &p.subset, msg.clone());
    let Some(sigshares) = sign_all::<C, L>(lab, &keys, &sess) else { return };
    lab.enter("wire-types");
    let id0 = ids[0];
    // --- packages
    wire!(lab, shares[&id0], SecretShare<C>, "SecretShare");
    wire!(lab, keys.0[&id0], KeyPackage<C>, "KeyPackage");
    wire!(lab, keys.1, PublicKeyPackage<C>, "PublicKeyPackage");
    wire!(lab, sess.nonces[&sess.signers[0]], SigningNonces<C>, "SigningNonces");
    wire!(lab, sess.commitments[&sess.signers[0]], SigningCommitments<C>, "SigningCommitments");
    wire!(lab, sess.package, fc::SigningPackage<C>, "SigningPackage");
    // the pre-3.0 public key package (no min_signers) still round-trips
    let old = PublicKeyPackage::<C>::new(keys.1.verifying_shares().clone(), *keys.1.verifying_key(), None);
    wire!(lab, old, PublicKeyPackage<C>, "PublicKeyPackage without min_signers");
    // --- key generation packages
    if let Some(run) = dkg_parts12::<C, L>(lab, p) {
        wire!(lab, run.r1[&id0], round1::Package<C>, "dkg::round1::Package");
        wire!(lab, run.r1_secret[&id0], round1::SecretPackage<C>, "dkg::round1::SecretPackage", false);
        wire!(lab, run.r2_secret[&id0], round2::SecretPackage<C>, "dkg::round2::SecretPackage", false);
        if let Some(pk) = run.r2[&id0].values().next() {
            wire!(lab, *pk, round2::Package<C>, "dkg::round2::Package");
        }
    }
    // --- fixed-size primitives
    let sh = *keys.0[&id0].signing_share();
    prim!(lab, id0, Identifier<C>, |v: &Identifier<C>| v.serialize(), "Identifier");
    prim!(lab, sh, SigningShare<C>, |v: &SigningShare<C>| v.serialize(), "SigningShare");
    prim!(lab, *keys.0[&id0].verifying_share(), VerifyingShare<C>, |v: &VerifyingShare<C>| v.serialize().unwrap(), "VerifyingShare");
    prim!(lab, *keys.1.verifying_key(), fc::VerifyingKey<C>, |v: &fc::VerifyingKey<C>| v.serialize().unwrap(), "VerifyingKey");
    prim!(lab, sigshares[&sess.signers[0]], fc::round2::SignatureShare<C>, |v: &fc::round2::SignatureShare<C>| v.serialize(), "SignatureShare");
    let nn = &sess.nonces[&sess.signers[0]];
    prim!(lab, *nn.hiding(), Nonce<C>, |v: &Nonce<C>| v.serialize(), "Nonce");
    prim!(lab, *nn.commitments().hiding(), NonceCommitment<C>, |v: &NonceCommitment<C>| v.serialize().unwrap(), "NonceCommitment");
    let cc = shares[&id0].commitment().coefficients()[0];
    prim!(lab, cc, CoefficientCommitment<C>, |v: &CoefficientCommitment<C>| v.serialize().unwrap(), "CoefficientCommitment");
    prim!(lab, Delta::<C>::new(sh.to_scalar()), Delta<C>, |v: &Delta<C>| v.serialize(), "repair Delta");
    prim!(lab, Sigma::<C>::new(sh.to_scalar()), Sigma<C>, |v: &Sigma<C>| v.serialize(), "repair Sigma");
    // verifiable secret sharing commitment: list form and whole form
    let vss = shares[&id0].commitment().clone();
    if let (Ok(list), Ok(whole)) = (vss.serialize(), vss.serialize_whole()) {
        lab.check(matches!(VerifiableSecretSharingCommitment::<C>::deserialize(list.clone()), Ok(b) if b == vss), "VSS commitment (list form) round-trips");
        lab.check(matches!(VerifiableSecretSharingCommitment::<C>::deserialize_whole(&whole), Ok(b) if b == vss), "VSS commitment (whole form) round-trips");
        lab.check(VerifiableSecretSharingCommitment::<C>::deserialize_whole(&whole[..whole.len() - 1]).is_err(), "VSS commitment (whole form): a truncated string is rejected");
    }
    // signature and randomizer
    if let Ok(sig) = fc::aggregate(&sess.package, &sigshares, &keys.1) {
        prim!(lab, sig, fc::Signature<C>, |v: &fc::Signature<C>| v.serialize().unwrap(), "Signature");
    }
    if let Ok((params, _seed)) = frost_rerandomized::RandomizedParams::<C>::new_from_commitments(keys.1.verifying_key(), &sess.commitments, &mut *lab.rng()) {
        let r = *params.randomizer();
        prim!(lab, r, frost_rerandomized::Randomizer<C>, |v: &frost_rerandomized::Randomizer<C>| v.serialize(), "Randomizer");
    }
    if let Ok(key) = fc::SigningKey::<C>::from_scalar(lab.nz_scalar("sk2")) {
        let bytes = key.serialize();
        lab.check(matches!(fc::SigningKey::<C>::deserialize(&bytes), Ok(k) if k == key), "SigningKey round-trips");
    }
    lab.leave();
}
