//! C13 — protocol state saved between rounds resumes to the identical outcome.
use crate::lab::*;
use crate::util::*;
use frost_core as fc;
use frost_core::keys::dkg::{self, round1, round2};
use frost_core::keys::refresh::*;
use frost_core::keys::{CoefficientCommitment, KeyPackage, PublicKeyPackage, SecretShare, VerifiableSecretSharingCommitment};
use frost_core::{Ciphersuite, Identifier};
use std::collections::BTreeMap;

const V_DKG: u32 = 0; // aux: participant | json << 8
const V_REFRESH_DKG: u32 = 1;
const V_SIGNING: u32 = 2;
const V_REFRESH_DEALER: u32 = 3;
const V_REPAIR: u32 = 4;
const V_PARAM_GRID: u32 = 5; // secret packages with boundary (min,max): aux = grid index
const V_SIZE: u32 = 6; // large real state (t = n = aux coefficients): encodings far beyond the sizes any test saves

pub const GRID: [u16; 9] = [2, 3, 127, 128, 255, 256, 300, 32768, 65535];

pub fn cases(thorough: bool, seed: u64) -> Vec<Params> {
    let mut out = vec![];
    for (n, t) in crate::nt_pairs(thorough) {
        if n > 5 {
            continue;
        }
        for v in [V_DKG, V_REFRESH_DKG, V_SIGNING, V_REFRESH_DEALER, V_REPAIR] {
            if v == V_REPAIR && t > n - 1 {
                continue;
            }
            for part in 0..n as u64 {
                if part > 0 && n > 3 && !thorough && part != n as u64 - 1 {
                    continue;
                }
                for json in 0..2u64 {
                    out.push(Params { n, t, ids: if part % 2 == 0 { IdSet::Default } else { IdSet::Wide(seed) }, subset: (0..t as usize).collect(), variant: v, aux: part | (json << 8), seed });
                }
            }
        }
    }
    // sizes around the length-prefix and total-length boundaries of the binary encoding
    let sizes: &[u64] = if thorough { &[127, 128, 129, 255, 256, 257, 511, 512, 1023, 1024, 1025, 2047, 2048, 2049, 4096] } else { &[128, 1024, 2049] };
    for &sz in sizes {
        out.push(Params { n: sz as u16, t: sz as u16, ids: IdSet::Default, subset: vec![], variant: V_SIZE, aux: sz, seed });
    }
    for i in 0..(GRID.len() * GRID.len()) as u64 {
        out.push(Params { n: 0, t: 0, ids: IdSet::Default, subset: vec![], variant: V_PARAM_GRID, aux: i, seed });
    }
    out
}

/// save with the library's own encoding (binary or JSON), drop, restore
macro_rules! persist {
    ($lab:expr, $json:expr, $val:expr, $ty:ty, $what:expr) => {{
        let restored: Option<$ty> = if $json {
            match serde_json::to_string(&$val) {
                // state files are read back through a reader (nothing to borrow from)
                Ok(s) => serde_json::from_reader::<_, $ty>(s.as_bytes()).ok(),
                Err(_) => None,
            }
        } else {
            match $val.serialize() {
                Ok(b) => <$ty>::deserialize(&b).ok(),
                Err(_) => None,
            }
        };
        if restored.is_none() {
            $lab.check(false, &format!("{}: saved state decodes again", $what));
        }
        restored
    }};
}

pub fn run<C: Ciphersuite, L: Lab<C>>(lab: &mut L, p: &Params) {
    let json = (p.aux >> 8) & 1 == 1;
    let pi = (p.aux & 0xff) as usize;
    match p.variant {
        V_PARAM_GRID => {
            lab.enter("secret-package-parameters");
            let (min, max) = (GRID[(p.aux as usize) / GRID.len()], GRID[(p.aux as usize) % GRID.len()]);
            let id = Identifier::<C>::try_from(1u16).unwrap();
            let e = lab.adv_element("phi0");
            let commitment = VerifiableSecretSharingCommitment::<C>::new(vec![CoefficientCommitment::new(e)]);
            let c0 = lab.scalar("a0");
            for js in [false, true] {
                let sp1 = round1::SecretPackage::<C>::new(id, vec![c0], commitment.clone(), min, max);
                if let Some(r) = persist!(lab, js, sp1, round1::SecretPackage<C>, "dkg round-one secret package") {
                    lab.check(*r.min_signers() == min && *r.max_signers() == max, "restored round-one secret package keeps min_signers and max_signers");
                    lab.check(r == sp1, "restored round-one secret package equals the saved one");
                }
                let sp2 = round2::SecretPackage::<C>::new(id, commitment.clone(), c0, min, max);
                if let Some(r) = persist!(lab, js, sp2, round2::SecretPackage<C>, "dkg round-two secret package") {
                    lab.check(*r.min_signers() == min && *r.max_signers() == max, "restored round-two secret package keeps min_signers and max_signers");
                    lab.check(r == sp2, "restored round-two secret package equals the saved one");
                }
                let kp = KeyPackage::<C>::new(id, fc::keys::SigningShare::new(c0), fc::keys::VerifyingShare::new(e), fc::VerifyingKey::new(e), min);
                if let Some(r) = persist!(lab, js, kp, KeyPackage<C>, "key package") {
                    lab.check(*r.min_signers() == min && r == kp, "restored key package equals the saved one");
                }
            }
            lab.leave();
        }
        V_SIZE => {
            lab.enter("large-state");
            let t = p.aux as u16;
            let id = Identifier::<C>::try_from(3u16).unwrap();
            for refresh in [false, true] {
                let r = if refresh { refresh_dkg_part1::<C, _>(id, t, t, &mut *lab.rng()) } else { dkg::part1::<C, _>(id, t, t, &mut *lab.rng()) };
                let Ok((sp1, pk1)) = r else {
                    lab.check(false, "round one runs for a large threshold");
                    continue;
                };
                let what = if refresh { "refresh round-one secret package" } else { "dkg round-one secret package" };
                for js in [false, true] {
                    if let Some(r) = persist!(lab, js, sp1, round1::SecretPackage<C>, what) {
                        lab.check(r == sp1, &format!("restored {what} with {t} coefficients equals the saved one"));
                    }
                    if let Some(r) = persist!(lab, js, pk1, round1::Package<C>, "round-one package") {
                        lab.check(r == pk1, "restored round-one package equals the saved one");
                    }
                    let share = lab.scalar("share");
                    let sp2 = round2::SecretPackage::<C>::new(id, pk1.commitment().clone(), share, t, t);
                    if let Some(r) = persist!(lab, js, sp2, round2::SecretPackage<C>, "round-two secret package") {
                        lab.check(r == sp2, &format!("restored round-two secret package with a {t}-entry commitment equals the saved one"));
                    }
                }
            }
            lab.leave();
        }
        V_DKG => {
            let ids = identifiers::<C>(p);
            let me = ids[pi % ids.len()];
            let Some(run) = dkg_parts12::<C, L>(lab, p) else { return };
            lab.enter("resume-dkg");
            let r1: BTreeMap<_, _> = run.r1.iter().filter(|(k, _)| **k != me).map(|(k, v)| (*k, v.clone())).collect();
            let r2: BTreeMap<_, _> = run.r2.iter().filter(|(k, _)| **k != me).map(|(k, v)| (*k, v[&me].clone())).collect();
            // boundary 1: after part1
            let Some(s1) = persist!(lab, json, run.r1_secret[&me], round1::SecretPackage<C>, "after part1") else {
                lab.leave();
                return;
            };
            let resumed = dkg::part2(s1, &r1);
            match resumed {
                Ok((s2r, pk2r)) => {
                    lab.check(s2r == run.r2_secret[&me], "part2 from the restored state yields the same round-two secret package");
                    for (id, pkg) in pk2r.iter() {
                        lab.eq_s(pkg.signing_share().to_scalar(), run.r2[&me][id].signing_share().to_scalar(), "part2 from the restored state sends the same shares");
                    }
                    // boundary 2: after part2
                    if let Some(s2) = persist!(lab, json, run.r2_secret[&me], round2::SecretPackage<C>, "after part2") {
                        let a = dkg::part3(&s2, &r1, &r2);
                        let b = dkg::part3(&run.r2_secret[&me], &r1, &r2);
                        match (a, b) {
                            (Ok((ka, pa)), Ok((kb, pb))) => {
                                lab.eq_s(ka.signing_share().to_scalar(), kb.signing_share().to_scalar(), "part3 from the restored state yields the same signing share");
                                lab.check(ka == kb && pa == pb, "part3 from the restored state yields the same key package and public key package");
                            }
                            _ => {
                                lab.check(false, "part3 accepts the restored state");
                            }
                        }
                    }
                }
                Err(_) => {
                    lab.check(false, "part2 accepts the restored state");
                }
            }
            lab.leave();
        }
        V_REFRESH_DKG => {
            let Some((_sk, _sh, keys)) = dealer_keys::<C, L>(lab, p) else { return };
            let ids: Vec<Identifier<C>> = keys.0.keys().copied().collect();
            let me = ids[pi % ids.len()];
            lab.enter("resume-distributed-refresh");
            let m = ids.len() as u16;
            let mut s1 = BTreeMap::new();
            let mut p1 = BTreeMap::new();
            for id in &ids {
                let Ok((s, pk)) = refresh_dkg_part1::<C, _>(*id, m, p.t, &mut *lab.rng()) else {
                    lab.leave();
                    return;
                };
                s1.insert(*id, s);
                p1.insert(*id, pk);
            }
            let others: BTreeMap<_, _> = p1.iter().filter(|(k, _)| **k != me).map(|(k, v)| (*k, v.clone())).collect();
            let Ok((s2_mem, pk2_mem)) = refresh_dkg_part2(s1[&me].clone(), &others) else {
                lab.check(false, "refresh_dkg_part2 succeeds");
                lab.leave();
                return;
            };
            if let Some(s1r) = persist!(lab, json, s1[&me], round1::SecretPackage<C>, "after refresh part1") {
                match refresh_dkg_part2(s1r, &others) {
                    Ok((s2r, pk2r)) => {
                        lab.check(s2r == s2_mem, "refresh part2 from the restored state yields the same secret package");
                        for (id, pkg) in pk2r.iter() {
                            lab.eq_s(pkg.signing_share().to_scalar(), pk2_mem[id].signing_share().to_scalar(), "refresh part2 from the restored state sends the same shares");
                        }
                    }
                    Err(_) => {
                        lab.check(false, "refresh part2 accepts the restored state");
                    }
                }
            }
            // the others' round-two packages for me
            let mut p2 = BTreeMap::new();
            for id in ids.iter().filter(|i| **i != me) {
                let o: BTreeMap<_, _> = p1.iter().filter(|(k, _)| *k != id).map(|(k, v)| (*k, v.clone())).collect();
                if let Ok((_, pk)) = refresh_dkg_part2(s1[id].clone(), &o) {
                    p2.insert(*id, pk[&me].clone());
                }
            }
            if let (Some(s2r), Some(kpr), Some(ppr)) = (
                persist!(lab, json, s2_mem, round2::SecretPackage<C>, "after refresh part2"),
                persist!(lab, json, keys.0[&me], KeyPackage<C>, "old key package"),
                persist!(lab, json, keys.1, PublicKeyPackage<C>, "old public key package"),
            ) {
                let a = refresh_dkg_shares(&s2r, &others, &p2, ppr, kpr);
                let b = refresh_dkg_shares(&s2_mem, &others, &p2, keys.1.clone(), keys.0[&me].clone());
                match (a, b) {
                    (Ok((ka, pa)), Ok((kb, pb))) => {
                        lab.check(ka == kb && pa == pb, "refresh_dkg_shares from the restored state yields the same packages");
                    }
                    _ => {
                        lab.check(false, "refresh_dkg_shares accepts the restored state");
                    }
                }
            }
            lab.leave();
        }
        V_SIGNING => {
            let Some((_sk, _sh, keys)) = dealer_keys::<C, L>(lab, p) else { return };
            let msg = lab.message("msg");
            let sess = open_session::<C, L>(lab, &keys, &p.subset, msg.clone());
            lab.enter("resume-signing");
            let me = sess.signers[pi % sess.signers.len()];
            let (Some(nr), Some(kpr)) = (persist!(lab, json, sess.nonces[&me], fc::round1::SigningNonces<C>, "after commit"), persist!(lab, json, keys.0[&me], KeyPackage<C>, "key package")) else {
                lab.leave();
                return;
            };
            let Some(pkgr) = persist!(lab, json, sess.package, fc::SigningPackage<C>, "signing package") else {
                lab.leave();
                return;
            };
            let a = fc::round2::sign(&pkgr, &nr, &kpr);
            let b = fc::round2::sign(&sess.package, &sess.nonces[&me], &keys.0[&me]);
            match (a, b) {
                (Ok(x), Ok(y)) => {
                    lab.eq_s(x.share().0, y.share().0, "signing from restored nonces and key package yields the same share");
                }
                _ => {
                    lab.check(false, "sign accepts the restored state");
                }
            }
            // coordinator side: restored public key package aggregates to the same signature
            if let (Some(shares), Some(ppr)) = (sign_all::<C, L>(lab, &keys, &sess), persist!(lab, json, keys.1, PublicKeyPackage<C>, "public key package")) {
                match (fc::aggregate(&sess.package, &shares, &ppr), fc::aggregate(&sess.package, &shares, &keys.1)) {
                    (Ok(x), Ok(y)) => {
                        lab.eq_s(*x.z(), *y.z(), "aggregation with the restored public key package yields the same signature");
                        lab.eq_e(*x.R(), *y.R(), "aggregation with the restored public key package yields the same R");
                    }
                    _ => {
                        lab.check(false, "aggregate accepts the restored state");
                    }
                }
            }
            lab.leave();
        }
        V_REFRESH_DEALER => {
            let Some((_sk, _sh, keys)) = dealer_keys::<C, L>(lab, p) else { return };
            let ids: Vec<Identifier<C>> = keys.0.keys().copied().collect();
            lab.enter("resume-dealer-refresh");
            let Ok((rshares, _)) = compute_refreshing_shares::<C, _>(keys.1.clone(), &ids, lab.rng()) else {
                lab.leave();
                return;
            };
            let rs = rshares[pi % rshares.len()].clone();
            let id = *rs.identifier();
            if let (Some(rsr), Some(kpr)) = (persist!(lab, json, rs, SecretShare<C>, "refreshing share"), persist!(lab, json, keys.0[&id], KeyPackage<C>, "key package")) {
                match (refresh_share(rsr, &kpr), refresh_share(rs, &keys.0[&id])) {
                    (Ok(x), Ok(y)) => {
                        lab.check(x == y, "refresh_share from the restored state yields the same key package");
                    }
                    _ => {
                        lab.check(false, "refresh_share accepts the restored state");
                    }
                }
            }
            lab.leave();
        }
        _ => {
            let Some((_sk, _sh, keys)) = dealer_keys::<C, L>(lab, p) else { return };
            let ids: Vec<Identifier<C>> = keys.0.keys().copied().collect();
            lab.enter("resume-repair");
            let target = ids[ids.len() - 1];
            let helpers: Vec<Identifier<C>> = ids.iter().take(p.t as usize).copied().collect();
            if helpers.contains(&target) {
                lab.leave();
                return;
            }
            let h = helpers[pi % helpers.len()];
            let Some(kpr) = persist!(lab, json, keys.0[&h], KeyPackage<C>, "helper key package") else {
                lab.leave();
                return;
            };
            // same draws for both runs
            let mut rr = ReplayRng::new(lab.rng());
            let a = fc::keys::repairable::repair_share_part1(&helpers, &kpr, &mut rr, target);
            rr.rewind();
            let b = fc::keys::repairable::repair_share_part1(&helpers, &keys.0[&h], &mut rr, target);
            match (a, b) {
                (Ok(x), Ok(y)) => {
                    for (id, d) in x.iter() {
                        lab.eq_s(d.to_scalar(), y[id].to_scalar(), "repair part1 from the restored key package yields the same values");
                    }
                }
                _ => {
                    lab.check(false, "repair part1 accepts the restored state");
                }
            }
            lab.leave();
        }
    }
}
