//! C14 (protocol half) — every protocol step that consumes material received from other
//! parties returns a value or an error, never panics, for well-typed but empty, oversized,
//! duplicated, mutually inconsistent inputs; and decoding entry points return for every
//! prefix / single-byte mutation of valid encodings. Arbitrary byte strings are engine E2 (K3–K5).
use crate::lab::*;
use crate::util::*;
use frost_core as fc;
use frost_core::keys::dkg::{self, round1, round2};
use frost_core::keys::{CoefficientCommitment, KeyPackage, PublicKeyPackage, SecretShare, SigningShare, VerifiableSecretSharingCommitment};
use frost_core::{Ciphersuite, Identifier};
use std::collections::BTreeMap;
use std::panic::{catch_unwind, AssertUnwindSafe};

pub fn cases(thorough: bool, seed: u64) -> Vec<Params> {
    let mut out = vec![];
    let shapes: &[(u16, u16)] = if thorough { &[(2, 2), (3, 2), (3, 3), (4, 2), (4, 3)] } else { &[(2, 2), (3, 2), (3, 3)] };
    for (n, t) in shapes {
        for v in 0..6u32 {
            out.push(Params { n: *n, t: *t, ids: IdSet::Default, subset: (0..*t as usize).collect(), variant: v, aux: 0, seed });
        }
    }
    out
}

macro_rules! no_panic {
    ($lab:expr, $what:expr, $body:expr) => {{
        let r = catch_unwind(AssertUnwindSafe(|| {
            let _ = $body;
        }));
        $lab.check(r.is_ok(), &format!("no panic: {}", $what));
    }};
}

pub fn run<C: Ciphersuite, L: Lab<C>>(lab: &mut L, p: &Params) {
    let Some((_sk, shares, keys)) = dealer_keys::<C, L>(lab, p) else { return };
    let ids: Vec<Identifier<C>> = keys.0.keys().copied().collect();
    let msg = lab.message("msg");
    let sess = open_session::<C, L>(lab, &keys, &p.subset, msg.clone());
    let Some(sigshares) = sign_all::<C, L>(lab, &keys, &sess) else { return };
    let me = sess.signers[0];
    let outsider = Identifier::<C>::try_from(4242u16).unwrap();
    lab.set_policy(Pol::ForkAdv);
    match p.variant {
        0 => {
            lab.enter("signing-inputs");
            let empty = fc::SigningPackage::<C>::new(BTreeMap::new(), &msg);
            no_panic!(lab, "sign on an empty signing package", fc::round2::sign(&empty, &sess.nonces[&me], &keys.0[&me]));
            no_panic!(lab, "aggregate on an empty signing package", fc::aggregate(&empty, &sigshares, &keys.1));
            no_panic!(lab, "aggregate with no shares", fc::aggregate(&sess.package, &BTreeMap::new(), &keys.1));
            // the empty package with every form of recorded threshold, and standalone share verification on it
            for min in [None, Some(0u16), Some(1), Some(p.t)] {
                let pk = PublicKeyPackage::<C>::new(keys.1.verifying_shares().clone(), *keys.1.verifying_key(), min);
                let modes = || [fc::CheaterDetection::Disabled, fc::CheaterDetection::FirstCheater, fc::CheaterDetection::AllCheaters];
                for (m, m2) in modes().into_iter().zip(modes()) {
                    no_panic!(lab, "aggregate: empty signing package, empty share map", fc::aggregate_custom(&empty, &BTreeMap::new(), &pk, m2));
                    no_panic!(lab, "aggregate: one-entry signing package, its one share", {
                        let mut one_c = BTreeMap::new();
                        one_c.insert(me, sess.commitments[&me]);
                        let mut one_s = BTreeMap::new();
                        one_s.insert(me, sigshares[&me]);
                        fc::aggregate_custom(&fc::SigningPackage::<C>::new(one_c, &msg), &one_s, &pk, m)
                    });
                }
            }
            no_panic!(lab, "verify_signature_share on an empty signing package", fc::verify_signature_share(me, &keys.1.verifying_shares()[&me], &sigshares[&me], &empty, keys.1.verifying_key()));
            let mut one = BTreeMap::new();
            one.insert(me, sess.commitments[&me]);
            let single = fc::SigningPackage::<C>::new(one, &msg);
            no_panic!(lab, "sign on a one-entry package", fc::round2::sign(&single, &sess.nonces[&me], &keys.0[&me]));
            // shares filed under identifiers that never committed
            let mut wrong = BTreeMap::new();
            for (j, s) in sigshares.values().enumerate() {
                wrong.insert(if j == 0 { outsider } else { *sigshares.keys().nth(j).unwrap() }, *s);
            }
            for m in [fc::CheaterDetection::Disabled, fc::CheaterDetection::FirstCheater, fc::CheaterDetection::AllCheaters] {
                no_panic!(lab, "aggregate with a share under an unknown identifier", fc::aggregate_custom(&sess.package, &wrong, &keys.1, m));
            }
            // public key package with no verifying shares / with an unrelated set
            let none = PublicKeyPackage::<C>::new(BTreeMap::new(), *keys.1.verifying_key(), Some(p.t));
            for m in [fc::CheaterDetection::Disabled, fc::CheaterDetection::FirstCheater, fc::CheaterDetection::AllCheaters] {
                no_panic!(lab, "aggregate with a public key package without verifying shares", fc::aggregate_custom(&sess.package, &sigshares, &none, m));
            }
            // adversarial share values, every detection mode
            let mut adv = sigshares.clone();
            let z = lab.adv_scalar("z'");
            adv.insert(me, sig_share_from_scalar::<C>(z));
            for m in [fc::CheaterDetection::Disabled, fc::CheaterDetection::FirstCheater, fc::CheaterDetection::AllCheaters] {
                no_panic!(lab, "aggregate with an arbitrary share value", fc::aggregate_custom(&sess.package, &adv, &keys.1, m));
            }
            no_panic!(lab, "verify_signature_share with an arbitrary share value", fc::verify_signature_share(me, &keys.1.verifying_shares()[&me], &adv[&me], &sess.package, keys.1.verifying_key()));
            no_panic!(lab, "verify_signature_share for an identifier outside the package", fc::verify_signature_share(outsider, &keys.1.verifying_shares()[&me], &sigshares[&me], &sess.package, keys.1.verifying_key()));
            // batch verification of arbitrary items
            let mut v = fc::batch::Verifier::<C>::new();
            if let Ok(sig) = fc::aggregate(&sess.package, &sigshares, &keys.1) {
                if let Ok(it) = fc::batch::Item::<C>::new(*keys.1.verifying_key(), fc::Signature::<C>::new(*sig.R(), z), &msg) {
                    v.queue(it);
                }
            }
            no_panic!(lab, "batch verification of an arbitrary item", v.verify(&mut *lab.rng()));
            lab.leave();
        }
        1 => {
            lab.enter("dealer-shares");
            let sh = shares[&me].clone();
            let empty = SecretShare::<C>::new(me, *sh.signing_share(), VerifiableSecretSharingCommitment::new(vec![]));
            no_panic!(lab, "SecretShare::verify with an empty commitment", empty.verify());
            no_panic!(lab, "KeyPackage::try_from with an empty commitment", KeyPackage::try_from(empty.clone()));
            let one = SecretShare::<C>::new(me, *sh.signing_share(), VerifiableSecretSharingCommitment::new(vec![sh.commitment().coefficients()[0]]));
            no_panic!(lab, "KeyPackage::try_from with a one-entry commitment", KeyPackage::try_from(one));
            let mut many = sh.commitment().coefficients().to_vec();
            for _ in 0..300 {
                many.push(many[0]);
            }
            let big = SecretShare::<C>::new(me, SigningShare::new(lab.adv_scalar("s'")), VerifiableSecretSharingCommitment::new(many));
            no_panic!(lab, "KeyPackage::try_from with an oversized commitment and arbitrary share", KeyPackage::try_from(big));
            // lengths around the u16 range (a count kept in a u16 wraps): 65535, 65536, 65536 + t entries
            // (concrete runs on the real suites only: a 65536-term symbolic sum does not fit the
            // term arena — measured 49 GB)
            let sizes: &[usize] = if lab.symbolic() || p.n != 2 { &[] } else { &[65536] };
            for &extra in sizes {
                let mut huge = sh.commitment().coefficients().to_vec();
                let filler = huge[0];
                huge.resize(huge.len() + extra, filler);
                let n_entries = huge.len();
                let hs = SecretShare::<C>::new(me, *sh.signing_share(), VerifiableSecretSharingCommitment::new(huge));
                no_panic!(lab, &format!("KeyPackage::try_from with a commitment of {n_entries} entries"), KeyPackage::try_from(hs.clone()));
            }
            no_panic!(lab, "reconstruct with no key packages", fc::keys::reconstruct::<C>(&[]));
            no_panic!(lab, "reconstruct with duplicated key packages", fc::keys::reconstruct::<C>(&[keys.0[&me].clone(), keys.0[&me].clone()]));
            no_panic!(lab, "PublicKeyPackage::from_commitment on an empty identifier set", PublicKeyPackage::<C>::from_commitment(&Default::default(), sh.commitment()));
            lab.leave();
        }
        2 | 3 => {
            lab.enter("keygen-inputs");
            let Some(run) = dkg_parts12::<C, L>(lab, p) else {
                lab.leave();
                return;
            };
            let me = ids[0];
            let sender = ids[1];
            let r1: BTreeMap<_, _> = run.r1.iter().filter(|(k, _)| **k != me).map(|(k, v)| (*k, v.clone())).collect();
            let r2: BTreeMap<_, _> = run.r2.iter().filter(|(k, _)| **k != me).map(|(k, v)| (*k, v[&me].clone())).collect();
            let pok = *r1[&sender].proof_of_knowledge();
            if p.variant == 2 {
                // commitments of odd lengths inside a round-one package
                for len in [0usize, 1, p.t as usize + 1] {
                    let mut cs: Vec<CoefficientCommitment<C>> = r1[&sender].commitment().coefficients().to_vec();
                    while cs.len() > len {
                        cs.pop();
                    }
                    while cs.len() < len {
                        cs.push(cs[0]);
                    }
                    let mut m = r1.clone();
                    m.insert(sender, round1::Package::new(VerifiableSecretSharingCommitment::new(cs), pok));
                    no_panic!(lab, "part2 with a peer commitment of odd length", dkg::part2(run.r1_secret[&me].clone(), &m));
                    no_panic!(lab, "part3 with a peer commitment of odd length", dkg::part3(&run.r2_secret[&me], &m, &r2));
                    let cm: BTreeMap<Identifier<C>, &VerifiableSecretSharingCommitment<C>> = m.iter().map(|(k, v)| (*k, v.commitment())).collect();
                    no_panic!(lab, "PublicKeyPackage::from_dkg_commitments with commitments of different lengths", PublicKeyPackage::<C>::from_dkg_commitments(&cm));
                }
                // a peer pads its commitment by 65536 entries (the length modulo 2^16 stays t);
                // concrete runs only, as above
                if !lab.symbolic() && p.n == 2 {
                    let mut cs: Vec<CoefficientCommitment<C>> = r1[&sender].commitment().coefficients().to_vec();
                    let filler = cs[0];
                    cs.resize(cs.len() + 65536, filler);
                    let mut m = r1.clone();
                    m.insert(sender, round1::Package::new(VerifiableSecretSharingCommitment::new(cs), pok));
                    no_panic!(lab, "part2 with a peer commitment padded by 65536 entries", dkg::part2(run.r1_secret[&me].clone(), &m));
                    no_panic!(lab, "part3 with a peer commitment padded by 65536 entries", dkg::part3(&run.r2_secret[&me], &m, &r2));
                }
                no_panic!(lab, "part2 with no packages", dkg::part2(run.r1_secret[&me].clone(), &BTreeMap::new()));
                no_panic!(lab, "part3 with no packages", dkg::part3(&run.r2_secret[&me], &BTreeMap::new(), &BTreeMap::new()));
                no_panic!(lab, "PublicKeyPackage::from_dkg_commitments on an empty map", PublicKeyPackage::<C>::from_dkg_commitments(&BTreeMap::new()));
            } else {
                // an equivocating peer: a SHORTER commitment together with a share that is consistent with it,
                // delivered to part3 (part2 saw the honest package)
                let coeffs = run.r1_secret[&sender].coefficients();
                for len in 1..p.t as usize {
                    let cs: Vec<CoefficientCommitment<C>> = r1[&sender].commitment().coefficients()[..len].to_vec();
                    let short_share = SigningShare::<C>::from_coefficients(&coeffs[..len], me);
                    let mut m1 = r1.clone();
                    m1.insert(sender, round1::Package::new(VerifiableSecretSharingCommitment::new(cs), pok));
                    let mut m2 = r2.clone();
                    m2.insert(sender, round2::Package::new(short_share));
                    no_panic!(lab, "part3 with a peer's shorter commitment and a share consistent with it", dkg::part3(&run.r2_secret[&me], &m1, &m2));
                }
                // arbitrary share values and proof values
                let mut m2 = r2.clone();
                m2.insert(sender, round2::Package::new(SigningShare::new(lab.adv_scalar("f'"))));
                no_panic!(lab, "part3 with an arbitrary share value", dkg::part3(&run.r2_secret[&me], &r1, &m2));
                let mut m1 = r1.clone();
                m1.insert(sender, round1::Package::new(r1[&sender].commitment().clone(), fc::Signature::<C>::new(lab.adv_element("R'"), lab.adv_scalar("mu'"))));
                no_panic!(lab, "part2 with an arbitrary proof of knowledge", dkg::part2(run.r1_secret[&me].clone(), &m1));
            }
            lab.leave();
        }
        4 => {
            lab.enter("refresh-and-repair-inputs");
            use frost_core::keys::refresh::*;
            use frost_core::keys::repairable::*;
            no_panic!(lab, "compute_refreshing_shares with no identifiers", compute_refreshing_shares::<C, _>(keys.1.clone(), &[], lab.rng()));
            no_panic!(lab, "compute_refreshing_shares with one identifier", compute_refreshing_shares::<C, _>(keys.1.clone(), &ids[..1], lab.rng()));
            let nomin = PublicKeyPackage::<C>::new(keys.1.verifying_shares().clone(), *keys.1.verifying_key(), None);
            no_panic!(lab, "compute_refreshing_shares without a recorded threshold", compute_refreshing_shares::<C, _>(nomin, &ids, lab.rng()));
            // public key packages (public data, decodable from the wire) recording every boundary threshold
            for min in [0u16, 1, p.n, p.n + 1, 65535] {
                let pk = PublicKeyPackage::<C>::new(keys.1.verifying_shares().clone(), *keys.1.verifying_key(), Some(min));
                for (idl, what) in [(&ids[..0], "no"), (&ids[..1], "one"), (&ids[..], "all")] {
                    no_panic!(lab, &format!("compute_refreshing_shares, recorded threshold {min}, {what} identifiers"), compute_refreshing_shares::<C, _>(pk.clone(), idl, lab.rng()));
                }
                for m in [fc::CheaterDetection::Disabled, fc::CheaterDetection::FirstCheater] {
                    no_panic!(lab, &format!("aggregate with a public key package recording threshold {min}"), fc::aggregate_custom(&sess.package, &sigshares, &pk, m));
                }
                no_panic!(lab, &format!("repair_share_part3 with a public key package recording threshold {min}"), repair_share_part3::<C>(&[], outsider, &pk));
            }
            for (mx, mn) in [(0u16, 0u16), (1, 1), (1, 2), (2, 0), (2, 1), (65535, 2)] {
                no_panic!(lab, &format!("refresh_dkg_part1 with max_signers {mx}, min_signers {mn}"), refresh_dkg_part1::<C, _>(me, mx, mn, &mut *lab.rng()).map(|_| ()));
                no_panic!(lab, &format!("dkg::part1 with max_signers {mx}, min_signers {mn}"), dkg::part1::<C, _>(me, mx, mn, &mut *lab.rng()).map(|_| ()));
            }
            let sh = shares[&me].clone();
            let empty = SecretShare::<C>::new(me, *sh.signing_share(), VerifiableSecretSharingCommitment::new(vec![]));
            no_panic!(lab, "refresh_share with an empty commitment", refresh_share(empty, &keys.0[&me]));
            no_panic!(lab, "refresh_dkg_part2 with no packages", match refresh_dkg_part1::<C, _>(me, p.n, p.t, &mut *lab.rng()) {
                Ok((s, _)) => refresh_dkg_part2(s, &BTreeMap::new()).map(|_| ()),
                Err(e) => Err(e),
            });
            no_panic!(lab, "repair_share_part1 with no helpers", repair_share_part1::<C, _>(&[], &keys.0[&me], lab.rng(), outsider));
            no_panic!(lab, "repair_share_part1 with duplicated helpers", repair_share_part1::<C, _>(&[me, me, me], &keys.0[&me], lab.rng(), outsider));
            no_panic!(lab, "repair_share_part1 repairing a helper's own identifier", repair_share_part1::<C, _>(&ids[..p.t as usize], &keys.0[&me], lab.rng(), me));
            no_panic!(lab, "repair_share_part2 with no values", repair_share_part2::<C>(&[]));
            no_panic!(lab, "repair_share_part3 with no values", repair_share_part3::<C>(&[], outsider, &keys.1));
            lab.leave();
        }
        _ => {
            lab.enter("structure-aware-byte-mutations");
            // every prefix and every single-byte change of valid encodings: decoders return
            macro_rules! mutate {
                ($val:expr, $ty:ty, $what:expr) => {
                    if let Ok(bytes) = $val.serialize() {
                        let mut ok = true;
                        let n = bytes.len();
                        for cut in 0..n.min(48) {
                            ok &= catch_unwind(AssertUnwindSafe(|| {
                                let _ = <$ty>::deserialize(&bytes[..cut]);
                            }))
                            .is_ok();
                        }
                        for pos in 0..n.min(48) {
                            for delta in [1u8, 0x80, 0xff] {
                                let mut m = bytes.clone();
                                m[pos] ^= delta;
                                ok &= catch_unwind(AssertUnwindSafe(|| {
                                    let _ = <$ty>::deserialize(&m);
                                }))
                                .is_ok();
                            }
                        }
                        lab.check(ok, &format!("no panic: decoding prefixes and single-byte mutations of a valid {}", $what));
                    }
                };
            }
            mutate!(keys.0[&me], KeyPackage<C>, "KeyPackage");
            mutate!(keys.1, PublicKeyPackage<C>, "PublicKeyPackage");
            mutate!(shares[&me], SecretShare<C>, "SecretShare");
            mutate!(sess.package, fc::SigningPackage<C>, "SigningPackage");
            mutate!(sess.nonces[&me], fc::round1::SigningNonces<C>, "SigningNonces");
            mutate!(sess.commitments[&me], fc::round1::SigningCommitments<C>, "SigningCommitments");
            if let Some(run) = dkg_parts12::<C, L>(lab, p) {
                mutate!(run.r1[&ids[0]], round1::Package<C>, "dkg::round1::Package");
                mutate!(run.r1_secret[&ids[0]], round1::SecretPackage<C>, "dkg::round1::SecretPackage");
                mutate!(run.r2_secret[&ids[0]], round2::SecretPackage<C>, "dkg::round2::SecretPackage");
            }
            lab.leave();
        }
    }
}
