//! C15 — signing nonces are fresh, hedged, and derived exactly as the RFC prescribes.
use crate::lab::*;
use crate::spec;
use crate::util::*;
use frost_core as fc;
use frost_core::keys::SigningShare;
use frost_core::Ciphersuite;

const V_PREPROCESS: u32 = 0; // aux = batch size
const V_COMMIT_SEQ: u32 = 1; // aux = number of consecutive commit calls
const V_HEDGED: u32 = 2; // same random bytes, different shares / same share
const V_CONSTANT_SOURCE: u32 = 3; // a constant random source

pub fn cases(_thorough: bool, seed: u64) -> Vec<Params> {
    let mut out = vec![];
    let mk = |variant: u32, aux: u64| Params { n: 0, t: 0, ids: IdSet::Default, subset: vec![], variant, aux, seed };
    for k in [0u64, 1, 2, 3, 4, 17, 32, 33, 64, 65, 127, 128, 255] {
        out.push(mk(V_PREPROCESS, k));
    }
    for k in [1u64, 2, 3] {
        out.push(mk(V_COMMIT_SEQ, k));
    }
    out.push(mk(V_HEDGED, 0));
    out.push(mk(V_CONSTANT_SOURCE, 0));
    out.push(mk(V_CONSTANT_SOURCE, 1));
    out
}

/// the bytes the random source handed out so far, in order
fn stream<C: Ciphersuite, L: Lab<C>>(lab: &mut L) -> Vec<u8> {
    let n = lab.rng_requests().len();
    let mut out = vec![];
    for k in 0..n {
        if let Some(b) = lab.draw_bytes(k) {
            out.extend(b);
        }
    }
    out
}

fn check_batch<C: Ciphersuite, L: Lab<C>>(
    lab: &mut L,
    share: frost_core::Scalar<C>,
    nonces: &[fc::round1::SigningNonces<C>],
    comms: &[fc::round1::SigningCommitments<C>],
) {
    lab.check(nonces.len() == comms.len(), "as many commitments as nonce pairs");
    let bytes = stream::<C, L>(lab);
    if !lab.check(bytes.len() >= 64 * nonces.len(), "32 new bytes for every hiding nonce and 32 further bytes for every binding nonce are drawn from the caller's source") {
        return;
    }
    let mut all = vec![];
    for (j, nn) in nonces.iter().enumerate() {
        // consecutive, disjoint 32-byte windows of the drawn stream: hiding first, then binding
        let hb = &bytes[64 * j..64 * j + 32];
        let bb = &bytes[64 * j + 32..64 * j + 64];
        let hn = spec::nonce_generate::<C>(hb, share);
        let bn = spec::nonce_generate::<C>(bb, share);
        lab.eq_s(nn.hiding().to_scalar(), hn, "hiding nonce = H3(its own 32 random bytes || SerializeScalar(share))");
        lab.eq_s(nn.binding().to_scalar(), bn, "binding nonce = H3(its own 32 further random bytes || SerializeScalar(share))");
        lab.eq_e(nn.commitments().hiding().value(), g::<C>() * nn.hiding().to_scalar(), "hiding commitment = G * hiding nonce");
        lab.eq_e(nn.commitments().binding().value(), g::<C>() * nn.binding().to_scalar(), "binding commitment = G * binding nonce");
        lab.eq_e(comms[j].hiding().value(), nn.commitments().hiding().value(), "published hiding commitment belongs to this nonce pair");
        lab.eq_e(comms[j].binding().value(), nn.commitments().binding().value(), "published binding commitment belongs to this nonce pair");
        all.push(nn.hiding().to_scalar());
        all.push(nn.binding().to_scalar());
    }
    lab.all_distinct_generic(&all, "no two nonces of the batch coincide (k independent pairs)");
    for x in all.iter().take(8) {
        lab.ne_generic_s(*x, zero::<C>(), "a nonce is never the zero scalar (only if H3 outputs 0)");
        lab.ne_generic_e(g::<C>() * *x, ident::<C>(), "a commitment is never the identity");
    }
}

pub fn run<C: Ciphersuite, L: Lab<C>>(lab: &mut L, p: &Params) {
    let s = lab.scalar("share");
    let share = SigningShare::<C>::new(s);
    match p.variant {
        V_PREPROCESS => {
            lab.enter("preprocess");
            let k = p.aux as u8;
            let (nn, cc) = fc::round1::preprocess(k, &share, lab.rng());
            lab.check(nn.len() == k as usize && cc.len() == k as usize, "preprocess(k) returns k nonce pairs and k commitments");
            check_batch::<C, L>(lab, s, &nn, &cc);
            lab.leave();
        }
        V_COMMIT_SEQ => {
            lab.enter("commit");
            let mut nn = vec![];
            let mut cc = vec![];
            for _ in 0..p.aux {
                let (a, b) = fc::round1::commit(&share, lab.rng());
                nn.push(a);
                cc.push(b);
            }
            check_batch::<C, L>(lab, s, &nn, &cc);
            lab.leave();
        }
        V_HEDGED => {
            lab.enter("hedged");
            // one block of random bytes, used for everything
            use rand_core::Rng;
            let mut bytes = [0u8; 32];
            lab.rng().fill_bytes(&mut bytes);
            let s2 = lab.scalar("share2");
            lab.assume_ne_s(s, s2, "two different signing shares");
            let (n1, _) = fc::round1::commit(&share, &mut FixedRng(bytes.to_vec()));
            let (n2, _) = fc::round1::commit(&SigningShare::<C>::new(s2), &mut FixedRng(bytes.to_vec()));
            let (n3, _) = fc::round1::commit(&share, &mut FixedRng(bytes.to_vec()));
            lab.ne_generic_s(n1.hiding().to_scalar(), n2.hiding().to_scalar(), "same random bytes, different shares: hiding nonces differ");
            lab.ne_generic_s(n1.binding().to_scalar(), n2.binding().to_scalar(), "same random bytes, different shares: binding nonces differ");
            lab.eq_s(n1.hiding().to_scalar(), n3.hiding().to_scalar(), "same random bytes and same share: the derivation is deterministic");
            lab.eq_s(n1.hiding().to_scalar(), spec::nonce_generate::<C>(&bytes, s), "nonce = H3(bytes || SerializeScalar(share)) for a repeating source too");
            lab.leave();
        }
        _ => {
            lab.enter("constant-source");
            let bytes = if p.aux == 0 { vec![0u8; 32] } else { vec![0xffu8; 32] };
            let (n1, c1) = fc::round1::commit(&share, &mut FixedRng(bytes.clone()));
            lab.eq_s(n1.hiding().to_scalar(), spec::nonce_generate::<C>(&bytes, s), "constant source: hiding nonce = H3(constant || SerializeScalar(share))");
            lab.eq_s(n1.binding().to_scalar(), spec::nonce_generate::<C>(&bytes, s), "constant source: binding nonce = H3(constant || SerializeScalar(share))");
            lab.eq_e(c1.hiding().value(), g::<C>() * n1.hiding().to_scalar(), "constant source: commitment = G * nonce");
            let s2 = lab.scalar("share2");
            lab.assume_ne_s(s, s2, "two different signing shares");
            let (n2, _) = fc::round1::commit(&SigningShare::<C>::new(s2), &mut FixedRng(bytes.clone()));
            lab.ne_generic_s(n1.hiding().to_scalar(), n2.hiding().to_scalar(), "constant source: the share still separates the nonces (hedging)");
            lab.leave();
        }
    }
}
