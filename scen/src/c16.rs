//! C16 — all secret randomness is drawn fresh from the caller's source and nowhere else.
use crate::lab::*;
use crate::util::*;
use frost_core as fc;
use frost_core::keys::{IdentifierList, KeyPackage};
use frost_core::{Ciphersuite, Element, Identifier};
use frost_rerandomized::RandomizedCiphersuite;

const E_GENERATE: u32 = 0;
const E_SPLIT: u32 = 1;
const E_DKG1: u32 = 2;
const E_REFRESH_DEALER: u32 = 3;
const E_REFRESH_DKG1: u32 = 4;
const E_REPAIR1: u32 = 5; // subset = helpers
const E_RANDOMIZER: u32 = 6;
const E_SIGNING_KEY: u32 = 7;
const E_BATCH: u32 = 8; // aux = items

pub fn cases(thorough: bool, seed: u64) -> Vec<Params> {
    let mut out = vec![];
    for (n, t) in crate::nt_pairs(thorough) {
        for v in [E_GENERATE, E_SPLIT, E_DKG1, E_REFRESH_DEALER, E_REFRESH_DKG1] {
            out.push(Params { n, t, ids: IdSet::Default, subset: vec![], variant: v, aux: 0, seed });
        }
        if n >= 3 {
            for h in subsets(n as usize, t as usize, n as usize - 1) {
                if h.len() == t as usize || h.len() == n as usize - 1 {
                    out.push(Params { n, t, ids: IdSet::Default, subset: h, variant: E_REPAIR1, aux: 0, seed });
                }
            }
        }
    }
    for k in [2u64, 3, 5] {
        out.push(Params { n: 3, t: 2, ids: IdSet::Default, subset: vec![0, 1], variant: E_RANDOMIZER, aux: k, seed });
    }
    out.push(Params { n: 0, t: 0, ids: IdSet::Default, subset: vec![], variant: E_SIGNING_KEY, aux: 0, seed });
    for k in if thorough { vec![1u64, 2, 3, 4, 6, 8] } else { vec![1u64, 2, 3, 4] } {
        out.push(Params { n: 0, t: 0, ids: IdSet::Default, subset: vec![], variant: E_BATCH, aux: k, seed });
    }
    out
}

/// "Each obtained from distinct draws … within one call no two of them coincide": the secret
/// values behind the published elements are a full-rank image of draws of the caller's source
/// (so none is constant, none is a function of another, each changes with the source output), and
/// no two coincide. How many draws the implementation makes, in which order, and how it maps bytes
/// to a value is not prescribed by the property and not checked.
fn commitments_are_draws<C: Ciphersuite, L: Lab<C>>(lab: &mut L, comms: &[Element<C>], _first_draw: usize, what: &str) {
    lab.jointly_uniform_e(comms, &format!("{what}: the secret values are a full-rank image of distinct draws from the caller's source"));
    for i in 0..comms.len() {
        for j in (i + 1)..comms.len() {
            lab.ne_generic_e(comms[i], comms[j], &format!("{what}: no two secret values of one call coincide"));
        }
    }
}

/// "with a different output every one of those values changes": the same call on fresh source
/// output yields, position by position, different secret values
fn changes_with_source<C: Ciphersuite, L: Lab<C>>(lab: &mut L, a: &[Element<C>], b: &[Element<C>], what: &str) {
    lab.check(a.len() == b.len(), &format!("{what}: the same number of secret values on a second call"));
    for (x, y) in a.iter().zip(b.iter()) {
        lab.ne_generic_e(*x, *y, &format!("{what}: a different source output changes every secret value"));
    }
}

pub fn run<C: RandomizedCiphersuite, L: Lab<C>>(lab: &mut L, p: &Params) {
    let t = p.t as usize;
    match p.variant {
        E_GENERATE => {
            lab.enter("generate_with_dealer");
            let mut rr = ReplayRng::new(lab.rng());
            let r1 = fc::keys::generate_with_dealer::<C, _>(p.n, p.t, IdentifierList::Default, &mut rr);
            rr.rewind();
            let r2 = fc::keys::generate_with_dealer::<C, _>(p.n, p.t, IdentifierList::Default, &mut rr);
            let (Ok((s1, p1)), Ok((s2, p2))) = (r1, r2) else {
                lab.check(false, "generate_with_dealer succeeds");
                lab.leave();
                return;
            };
            let id1 = Identifier::<C>::try_from(1u16).unwrap();
            let comms: Vec<Element<C>> = s1[&id1].commitment().coefficients().iter().map(|c| c.value()).collect();
            commitments_are_draws::<C, L>(lab, &comms, 0, "dealer polynomial");
            // reproducible bit for bit
            lab.eq_e(p1.verifying_key().to_element(), p2.verifying_key().to_element(), "same source output => same group key");
            for (id, sh) in s1.iter() {
                lab.eq_s(sh.signing_share().to_scalar(), s2[id].signing_share().to_scalar(), "same source output => same shares");
            }
            lab.leave();
        }
        E_SPLIT => {
            lab.enter("split");
            let sk = lab.nz_scalar("sk");
            let key = fc::SigningKey::<C>::from_scalar(sk).unwrap();
            let r = fc::keys::split(&key, p.n, p.t, IdentifierList::Default, lab.rng());
            let Ok((s1, _)) = r else {
                lab.check(false, "split succeeds");
                lab.leave();
                return;
            };
            let id1 = Identifier::<C>::try_from(1u16).unwrap();
            let comms: Vec<Element<C>> = s1[&id1].commitment().coefficients().iter().skip(1).map(|c| c.value()).collect();
            commitments_are_draws::<C, L>(lab, &comms, 0, "split polynomial");
            if let Ok((s2, _)) = fc::keys::split(&key, p.n, p.t, IdentifierList::Default, lab.rng()) {
                let comms2: Vec<Element<C>> = s2[&id1].commitment().coefficients().iter().skip(1).map(|c| c.value()).collect();
                changes_with_source::<C, L>(lab, &comms, &comms2, "split polynomial");
            }
            lab.leave();
        }
        E_DKG1 => {
            lab.enter("dkg::part1");
            let id = Identifier::<C>::try_from(1u16).unwrap();
            let mut rr = ReplayRng::new(lab.rng());
            let r1 = fc::keys::dkg::part1::<C, _>(id, p.n, p.t, &mut rr);
            rr.rewind();
            let r2 = fc::keys::dkg::part1::<C, _>(id, p.n, p.t, &mut rr);
            let (Ok((_, pk1)), Ok((_, pk2))) = (r1, r2) else {
                lab.check(false, "dkg::part1 succeeds");
                lab.leave();
                return;
            };
            let mut comms: Vec<Element<C>> = pk1.commitment().coefficients().iter().map(|c| c.value()).collect();
            comms.push(*pk1.proof_of_knowledge().R());
            commitments_are_draws::<C, L>(lab, &comms, 0, "key-generation polynomial and proof nonce");
            if let Ok((_, pk3)) = fc::keys::dkg::part1::<C, _>(id, p.n, p.t, &mut *lab.rng()) {
                let mut comms3: Vec<Element<C>> = pk3.commitment().coefficients().iter().map(|c| c.value()).collect();
                comms3.push(*pk3.proof_of_knowledge().R());
                changes_with_source::<C, L>(lab, &comms, &comms3, "key-generation polynomial and proof nonce");
            }
            lab.eq_s(*pk1.proof_of_knowledge().z(), *pk2.proof_of_knowledge().z(), "same source output => same proof of knowledge");
            lab.eq_e(*pk1.proof_of_knowledge().R(), *pk2.proof_of_knowledge().R(), "same source output => same proof commitment");
            lab.leave();
        }
        E_REFRESH_DEALER => {
            let Some((_sk, _sh, keys)) = dealer_keys::<C, L>(lab, p) else { return };
            lab.enter("compute_refreshing_shares");
            let ids: Vec<Identifier<C>> = keys.0.keys().copied().collect();
            let before = lab.rng_requests().len();
            let r = fc::keys::refresh::compute_refreshing_shares::<C, _>(keys.1.clone(), &ids, lab.rng());
            let Ok((shares, _)) = r else {
                lab.check(false, "compute_refreshing_shares succeeds");
                lab.leave();
                return;
            };
            let comms: Vec<Element<C>> = shares[0].commitment().coefficients().iter().map(|c| c.value()).collect();
            lab.check(comms.len() == t - 1, "the refreshing commitment carries the t-1 non-constant coefficients");
            commitments_are_draws::<C, L>(lab, &comms, before, "refresh polynomial");
            if let Ok((shares2, _)) = fc::keys::refresh::compute_refreshing_shares::<C, _>(keys.1.clone(), &ids, lab.rng()) {
                let comms2: Vec<Element<C>> = shares2[0].commitment().coefficients().iter().map(|c| c.value()).collect();
                changes_with_source::<C, L>(lab, &comms, &comms2, "refresh polynomial");
            }
            lab.leave();
        }
        E_REFRESH_DKG1 => {
            lab.enter("refresh_dkg_part1");
            let id = Identifier::<C>::try_from(1u16).unwrap();
            let r = fc::keys::refresh::refresh_dkg_part1::<C, _>(id, p.n, p.t, &mut *lab.rng());
            let Ok((_, pk)) = r else {
                lab.check(false, "refresh_dkg_part1 succeeds");
                lab.leave();
                return;
            };
            let mut comms: Vec<Element<C>> = pk.commitment().coefficients().iter().map(|c| c.value()).collect();
            comms.push(*pk.proof_of_knowledge().R());
            commitments_are_draws::<C, L>(lab, &comms, 0, "distributed-refresh polynomial and proof nonce");
            if let Ok((_, pk2)) = fc::keys::refresh::refresh_dkg_part1::<C, _>(id, p.n, p.t, &mut *lab.rng()) {
                let mut comms2: Vec<Element<C>> = pk2.commitment().coefficients().iter().map(|c| c.value()).collect();
                comms2.push(*pk2.proof_of_knowledge().R());
                changes_with_source::<C, L>(lab, &comms, &comms2, "distributed-refresh polynomial and proof nonce");
            }
            lab.leave();
        }
        E_REPAIR1 => {
            let Some((_sk, _sh, keys)) = dealer_keys::<C, L>(lab, p) else { return };
            lab.enter("repair_share_part1");
            let ids: Vec<Identifier<C>> = keys.0.keys().copied().collect();
            let helpers: Vec<Identifier<C>> = p.subset.iter().map(|i| ids[*i]).collect();
            let target = *ids.iter().find(|i| !helpers.contains(i)).unwrap();
            let before = lab.rng_requests().len();
            let r = fc::keys::repairable::repair_share_part1(&helpers, &keys.0[&helpers[0]], lab.rng(), target);
            let Ok(deltas) = r else {
                lab.check(false, "repair_share_part1 succeeds");
                lab.leave();
                return;
            };
            let h = helpers.len();
            let vals: Vec<Element<C>> = deltas.values().map(|d| g::<C>() * d.to_scalar()).collect();
            // |H|-1 of the outgoing values are blinders, one is the remainder — which helper gets the
            // remainder is not prescribed: every |H|-1 of the |H| values are a full-rank image of draws
            // (so any |H|-1 recipients together learn nothing), and no two values coincide
            let _ = before;
            for leave_out in 0..h {
                let sub: Vec<Element<C>> = vals.iter().enumerate().filter(|(i, _)| *i != leave_out).map(|(_, v)| *v).collect();
                if !sub.is_empty() {
                    lab.jointly_uniform_e(&sub, "repair values: every |H|-1 of the outgoing values are a full-rank image of distinct draws from the caller's source");
                }
            }
            for i in 0..h {
                for j in (i + 1)..h {
                    lab.ne_generic_e(vals[i], vals[j], "repair values: no two outgoing values of one call coincide");
                }
            }
            if let Ok(deltas2) = fc::keys::repairable::repair_share_part1(&helpers, &keys.0[&helpers[0]], lab.rng(), target) {
                let vals2: Vec<Element<C>> = deltas2.values().map(|d| g::<C>() * d.to_scalar()).collect();
                changes_with_source::<C, L>(lab, &vals, &vals2, "repair values");
            }
            lab.leave();
        }
        E_RANDOMIZER => {
            let Some((_sk, _sh, keys)) = dealer_keys::<C, L>(lab, p) else { return };
            lab.enter("randomizer");
            let msg = lab.message("msg");
            let sess = open_session::<C, L>(lab, &keys, &p.subset, msg);
            let before = lab.rng_requests().len();
            let r = frost_rerandomized::RandomizedParams::<C>::new_from_commitments(keys.1.verifying_key(), &sess.commitments, &mut *lab.rng());
            let Ok((params, seed)) = r else {
                lab.check(false, "new_from_commitments succeeds");
                lab.leave();
                return;
            };
            let req = lab.rng_requests();
            let slen = ser_s::<C>(&zero::<C>()).len();
            lab.check(req.len() - before == 1 && req[before] == slen, "the randomizer seed is one draw of scalar length");
            if let Some(b) = lab.draw_bytes(before) {
                lab.eq_bytes(&seed, &b, "the returned seed is exactly the drawn bytes");
            }
            // a second seed gives another randomizer
            let r2 = frost_rerandomized::RandomizedParams::<C>::new_from_commitments(keys.1.verifying_key(), &sess.commitments, &mut *lab.rng());
            if let Ok((params2, _)) = r2 {
                lab.ne_generic_s(randomizer_scalar::<C>(params.randomizer()), randomizer_scalar::<C>(params2.randomizer()), "two draws give two different randomizers");
            }
            let _ = p.aux;
            lab.leave();
        }
        E_SIGNING_KEY => {
            lab.enter("SigningKey");
            let k1 = fc::SigningKey::<C>::new(lab.rng());
            let k2 = fc::SigningKey::<C>::new(lab.rng());
            lab.check(lab.rng_requests().len() == 2, "SigningKey::new: one draw each");
            let (s1, s2) = (k1.to_scalar(), k2.to_scalar());
            commitments_are_draws::<C, L>(lab, &[g::<C>() * s1, g::<C>() * s2], 0, "signing keys");
            let key = fc::SigningKey::<C>::from_scalar(s1).unwrap();
            let msg = lab.message("msg");
            let sig1 = key.sign(&mut *lab.rng(), &msg);
            let sig2 = key.sign(&mut *lab.rng(), &msg);
            lab.check(lab.rng_requests().len() == 4, "SigningKey::sign: one nonce draw per signature");
            commitments_are_draws::<C, L>(lab, &[*sig1.R(), *sig2.R()], 2, "single-signer nonces");
            lab.leave();
        }
        _ => {
            lab.enter("batch::Verifier");
            let k = p.aux as usize;
            let mut v = fc::batch::Verifier::<C>::new();
            for j in 0..k {
                let sk = lab.nz_scalar(&format!("sk{j}"));
                let key = fc::SigningKey::<C>::from_scalar(sk).unwrap();
                let vk = fc::VerifyingKey::<C>::from(&key);
                let msg = lab.message(&format!("m{j}"));
                let sig = key.sign(&mut *lab.rng(), &msg);
                match fc::batch::Item::<C>::new(vk, sig, &msg) {
                    Ok(it) => v.queue(it),
                    Err(_) => {
                        lab.check(false, "batch item builds");
                    }
                }
            }
            let before = lab.rng_requests().len();
            let r = v.verify(&mut *lab.rng());
            lab.check(r.is_ok(), "a batch of valid signatures verifies");
            lab.check(lab.rng_requests().len() > before, "batch verification takes its blinders from the caller's source");
            // the blinders are independent fresh values: whatever errors are put on the responses of
            // the first and the last item (free, non-zero), no choice of them makes the batch pass
            // for the blinders drawn afterwards (how many draws are made is not prescribed)
            let mut v2 = fc::batch::Verifier::<C>::new();
            for j in 0..k {
                // the first and the last item share one key (blinders must be independent per ITEM)
                let sk = lab.nz_scalar(&format!("sk'{}", if j == k - 1 { 0 } else { j }));
                let key = fc::SigningKey::<C>::from_scalar(sk).unwrap();
                let vk = fc::VerifyingKey::<C>::from(&key);
                let msg = lab.message(&format!("m'{j}"));
                let mut sig = key.sign(&mut *lab.rng(), &msg);
                if j == 0 || j == k - 1 {
                    let e = lab.adv_scalar(&format!("e{j}"));
                    lab.assume_ne_s(e, zero::<C>(), "the response is altered");
                    sig = fc::Signature::<C>::new(*sig.R(), *sig.z() + e);
                }
                if let Ok(it) = fc::batch::Item::<C>::new(vk, sig, &msg) {
                    v2.queue(it);
                }
            }
            let mk = lab.mark();
            let r2 = v2.verify(&mut *lab.rng());
            lab.expect_reject(mk, r2.is_ok(), "independent blinders: altered responses on two items never cancel");
            lab.leave();
        }
    }
    let _: Option<KeyPackage<C>> = None;
}
