//! C17 — re-randomized signing verifies only under the session-bound randomized key.
use crate::c06::err_name;
use crate::lab::*;
use crate::util::*;
use frost_core as fc;
use frost_core::round1::SigningCommitments;
use frost_core::{Ciphersuite, Identifier};
use frost_rerandomized as rr;
use frost_rerandomized::RandomizedCiphersuite;
use std::collections::BTreeMap;

const V_FLOW: u32 = 0; // seed-based flow
const V_EXPLICIT: u32 = 1; // explicit randomizer: aux 0 = free non-zero, 1 = zero
const V_TAMPER: u32 = 2; // participant's view differs: aux = kind
const V_CHEAT: u32 = 3; // cheater identification under randomization: aux = mode | cheater slot << 4
const V_THRESHOLD: u32 = 4; // fewer than t under randomization

pub fn cases(thorough: bool, seed: u64) -> Vec<Params> {
    let mut out = vec![];
    for (n, t) in crate::nt_pairs(thorough) {
        if n > 5 {
            continue;
        }
        for ids in [IdSet::Default, IdSet::Wide(seed)] {
            let mut subs = subsets(n as usize, t as usize, n as usize);
            if ids != IdSet::Default || n > 3 {
                let a = subs[0].clone();
                let b = subs[subs.len() - 1].clone();
                subs = vec![a, b];
                subs.dedup();
            }
            for s in subs {
                let k = s.len() as u64;
                out.push(Params { n, t, ids: ids.clone(), subset: s.clone(), variant: V_FLOW, aux: 0, seed });
                out.push(Params { n, t, ids: ids.clone(), subset: s.clone(), variant: V_EXPLICIT, aux: 0, seed });
                out.push(Params { n, t, ids: ids.clone(), subset: s.clone(), variant: V_EXPLICIT, aux: 1, seed });
                if ids == IdSet::Default {
                    for kind in 0..(2 + 3 * k) {
                        out.push(Params { n, t, ids: ids.clone(), subset: s.clone(), variant: V_TAMPER, aux: kind, seed });
                    }
                    // the same commitments filed under other identifiers (the "exact commitment set" includes who committed)
                    // ... and seeds that differ only in length (a byte appended, the last byte dropped, a zero appended)
                    for kind in [1000u64, 1001, 1002, 1003, 1004, 1005] {
                        out.push(Params { n, t, ids: ids.clone(), subset: s.clone(), variant: V_TAMPER, aux: kind, seed });
                    }
                    for mode in 0..3u64 {
                        for slot in 0..k {
                            out.push(Params { n, t, ids: ids.clone(), subset: s.clone(), variant: V_CHEAT, aux: mode | (slot << 4), seed });
                        }
                    }
                }
            }
            out.push(Params { n, t, ids: ids.clone(), subset: (0..t as usize - 1).collect(), variant: V_THRESHOLD, aux: 0, seed });
        }
    }
    // large signer sets: everybody signs; seed-based flow, a re-keyed view, one cheater in the last slot
    for (n, t) in crate::large_pairs(thorough) {
        if n > 40 {
            continue;
        }
        let all: Vec<usize> = (0..n as usize).collect();
        out.push(Params { n, t, ids: IdSet::Default, subset: all.clone(), variant: V_FLOW, aux: 0, seed });
        out.push(Params { n, t, ids: IdSet::Default, subset: all.clone(), variant: V_TAMPER, aux: 1001, seed });
        out.push(Params { n, t, ids: IdSet::Default, subset: all.clone(), variant: V_TAMPER, aux: 2 + 3 * (n as u64 - 1) + 1, seed });
        out.push(Params { n, t, ids: IdSet::Default, subset: all.clone(), variant: V_CHEAT, aux: 1 | ((n as u64 - 1) << 4), seed });
    }
    out
}

pub fn run<C: RandomizedCiphersuite, L: Lab<C>>(lab: &mut L, p: &Params) {
    let Some((_sk, _sh, keys)) = dealer_keys::<C, L>(lab, p) else { return };
    let ids: Vec<Identifier<C>> = keys.0.keys().copied().collect();
    let vk = *keys.1.verifying_key();
    let msg = lab.message("msg");

    if p.variant == V_THRESHOLD {
        lab.enter("threshold-under-randomization");
        if p.subset.is_empty() {
            lab.leave();
            return;
        }
        let sess = open_session::<C, L>(lab, &keys, &p.subset, msg.clone());
        let Ok((params, seed)) = rr::RandomizedParams::<C>::new_from_commitments(&vk, &sess.commitments, &mut *lab.rng()) else {
            lab.leave();
            return;
        };
        for id in &sess.signers {
            let r = rr::sign_with_randomizer_seed(&sess.package, &sess.nonces[id], &keys.0[id], &seed);
            lab.check(r.is_err(), "a signer refuses fewer than t participants under randomization");
        }
        let mut fake = BTreeMap::new();
        for (j, id) in sess.signers.iter().enumerate() {
            fake.insert(*id, sig_share_from_scalar::<C>(lab.adv_scalar(&format!("z{j}"))));
        }
        let r = rr::aggregate(&sess.package, &fake, &keys.1, &params);
        lab.check(r.is_err(), "the coordinator refuses fewer than t shares under randomization");
        // "unchanged under randomization": the refusal is the one the plain aggregation gives on the
        // same inputs — in particular nobody is blamed for a set that is merely too small
        let r0 = fc::aggregate(&sess.package, &fake, &keys.1);
        if let (Err(e), Err(e0)) = (&r, &r0) {
            lab.check(err_name(e) == err_name(e0) && e.culprits() == e0.culprits(), "threshold enforcement is unchanged under randomization: same refusal as the plain aggregation, same (empty) culprit list");
        }
        let modes = || [fc::CheaterDetection::Disabled, fc::CheaterDetection::FirstCheater, fc::CheaterDetection::AllCheaters];
        for (mode, mode0) in modes().into_iter().zip(modes()) {
            let r = rr::aggregate_custom(&sess.package, &fake, &keys.1, mode, &params);
            let r0 = fc::aggregate_custom(&sess.package, &fake, &keys.1, mode0);
            match (&r, &r0) {
                (Err(e), Err(e0)) => {
                    lab.check(err_name(e) == err_name(e0) && e.culprits() == e0.culprits(), "threshold enforcement is unchanged under randomization (aggregate_custom, every detection mode)");
                }
                _ => {
                    lab.check(false, "fewer than t shares are refused with and without randomization");
                }
            }
        }
        lab.leave();
        return;
    }

    let sess = open_session::<C, L>(lab, &keys, &p.subset, msg.clone());
    let k = sess.signers.len();
    lab.enter("randomized");
    // ---- coordinator side
    let (params, seed): (rr::RandomizedParams<C>, Option<Vec<u8>>) = if p.variant == V_EXPLICIT {
        let alpha = if p.aux == 1 {
            zero::<C>()
        } else {
            let a = lab.adv_scalar("alpha");
            lab.assume_ne_s(a, zero::<C>(), "the explicit randomizer is non-zero");
            a
        };
        (rr::RandomizedParams::<C>::from_randomizer(&vk, rr::Randomizer::<C>::from_scalar(alpha)), None)
    } else {
        match rr::RandomizedParams::<C>::new_from_commitments(&vk, &sess.commitments, &mut *lab.rng()) {
            Ok((pp, s)) => (pp, Some(s)),
            Err(_) => {
                lab.check(false, "new_from_commitments succeeds");
                lab.leave();
                return;
            }
        }
    };
    let alpha = randomizer_scalar::<C>(params.randomizer());
    lab.eq_e(*params.randomizer_element(), g::<C>() * alpha, "randomizer element = G * randomizer");
    lab.eq_e(params.randomized_verifying_key().to_element(), vk.to_element() + g::<C>() * alpha, "randomized key = group key + G * randomizer");

    // ---- participants
    let mut shares = BTreeMap::new();
    let mut any_tamper = false;
    for (j, id) in sess.signers.iter().enumerate() {
        // what this participant was told: possibly tampered (V_TAMPER, first signer only)
        let mut my_seed = seed.clone();
        let mut my_pkg = sess.package.clone();
        let mut tampered = None;
        if p.variant == V_TAMPER && j == 0 {
            let kind = p.aux as usize;
            if kind == 0 {
                let Ok((_, other)) = rr::RandomizedParams::<C>::new_from_commitments(&vk, &sess.commitments, &mut *lab.rng()) else { return };
                my_seed = Some(other);
                tampered = Some("another seed".to_string());
            } else if kind == 1 {
                // a participant added to the commitment set
                if let Some(extra) = ids.iter().find(|i| !sess.signers.contains(i)).copied() {
                    let (_, cc) = fc::round1::commit(keys.0[&extra].signing_share(), lab.rng());
                    let mut m = sess.commitments.clone();
                    m.insert(extra, cc);
                    my_pkg = fc::SigningPackage::new(m, &msg);
                    tampered = Some("a participant added to the commitment set".to_string());
                }
            } else if kind >= 1003 {
                if let Some(sd) = &seed {
                    let mut other = sd.clone();
                    match kind {
                        1003 => other.push(0x42),
                        1004 => {
                            other.pop();
                        }
                        _ => other.push(0),
                    }
                    my_seed = Some(other);
                    tampered = Some(match kind {
                        1003 => "the seed with one more byte",
                        1004 => "the seed without its last byte",
                        _ => "the seed with a zero byte appended",
                    }.to_string());
                }
            } else if kind >= 1000 {
                // no commitment value changes; only the identifiers they are filed under
                let others: Vec<Identifier<C>> = sess.signers.iter().filter(|s| *s != id).copied().collect();
                let outsider = Identifier::<C>::try_from(4242u16).unwrap();
                let mut m = sess.commitments.clone();
                if kind == 1000 {
                    // the highest other participant's entry moves to an identifier above every signer (order preserved)
                    if let Some(last) = others.last() {
                        let c = m.remove(last).unwrap();
                        m.insert(outsider, c);
                        tampered = Some("an entry is filed under a different, larger identifier (same values, same order)".to_string());
                    }
                } else if kind == 1001 {
                    // ... to an unused identifier of the group, wherever it sorts
                    if let (Some(first), Some(extra)) = (others.first(), ids.iter().find(|i| !sess.signers.contains(i)).copied()) {
                        let c = m.remove(first).unwrap();
                        m.insert(extra, c);
                        tampered = Some("an entry is filed under an unused identifier of the group".to_string());
                    }
                } else if others.len() >= 2 {
                    // two other participants' entries exchanged
                    let (a, b) = (others[0], others[1]);
                    let (ca, cb) = (m[&a], m[&b]);
                    m.insert(a, cb);
                    m.insert(b, ca);
                    tampered = Some("two other participants' entries are exchanged".to_string());
                }
                if tampered.is_some() {
                    my_pkg = fc::SigningPackage::new(m, &msg);
                }
            } else {
                let slot = (kind - 2) / 3;
                let which = (kind - 2) % 3;
                let sid = sess.signers[slot];
                if slot == 0 && which < 2 {
                    // own entry must match own nonces: alter somebody else's instead when possible
                }
                let target = if slot == 0 && k > 1 { sess.signers[1] } else { sid };
                if target != *id {
                    let (_, other) = fc::round1::commit(keys.0[&target].signing_share(), lab.rng());
                    let cur = sess.commitments[&target];
                    let c = match which {
                        0 => SigningCommitments::new(*other.hiding(), *cur.binding()),
                        1 => SigningCommitments::new(*cur.hiding(), *other.binding()),
                        _ => other,
                    };
                    let mut m = sess.commitments.clone();
                    m.insert(target, c);
                    my_pkg = fc::SigningPackage::new(m, &msg);
                    tampered = Some(format!("commitment component {which} of another participant differs"));
                }
            }
        }
        any_tamper |= tampered.is_some();
        let r = match &my_seed {
            Some(s) => {
                // the participant's regenerated parameters
                if let Ok(mine) = rr::RandomizedParams::<C>::regenerate_from_seed_and_commitments(&vk, s, my_pkg.signing_commitments()) {
                    match &tampered {
                        None => {
                            lab.eq_s(randomizer_scalar::<C>(mine.randomizer()), alpha, "participant's regenerated randomizer = coordinator's");
                            lab.eq_e(mine.randomized_verifying_key().to_element(), params.randomized_verifying_key().to_element(), "participant's randomized key = coordinator's");
                        }
                        Some(w) => {
                            lab.ne_generic_s(randomizer_scalar::<C>(mine.randomizer()), alpha, &format!("the randomizer changes when the participant's view differs: {w}"));
                        }
                    }
                }
                rr::sign_with_randomizer_seed(&my_pkg, &sess.nonces[id], &keys.0[id], s)
            }
            None => {
                #[allow(deprecated)]
                rr::sign(&my_pkg, &sess.nonces[id], &keys.0[id], *params.randomizer())
            }
        };
        match r {
            Ok(s) => {
                shares.insert(*id, s);
            }
            Err(_) => {
                lab.check(tampered.is_some(), "randomized signing succeeds for an honest view");
                lab.leave();
                return;
            }
        }
    }

    if p.variant == V_TAMPER {
        if !any_tamper {
            lab.leave();
            return; // this tamper kind does not apply to this signer set
        }
        let m = lab.mark();
        let r = rr::aggregate(&sess.package, &shares, &keys.1, &params);
        lab.expect_reject(m, r.is_ok(), "a share made under another seed or commitment set does not aggregate");
        if let Err(e) = &r {
            lab.check(e.culprits() == vec![sess.signers[0]], "the participant whose view differed is the one named");
        }
        lab.leave();
        return;
    }

    if p.variant == V_CHEAT {
        let mode = p.aux & 0xf;
        let slot = (p.aux >> 4) as usize;
        let cid = sess.signers[slot];
        let honest = shares[&cid].share().0;
        let z = lab.adv_scalar("z'");
        shares.insert(cid, sig_share_from_scalar::<C>(z));
        lab.set_policy(Pol::ForkAdv);
        let cd = match mode {
            0 => fc::CheaterDetection::Disabled,
            1 => fc::CheaterDetection::FirstCheater,
            _ => fc::CheaterDetection::AllCheaters,
        };
        let r = rr::aggregate_custom(&sess.package, &shares, &keys.1, cd, &params);
        let same = lab.holds_eq_s(z, honest);
        match r {
            Ok(sig) => {
                lab.check(same == Some(true), "with one altered share aggregation succeeds only if the share equals the honest one");
                spec_verify::<C, L>(lab, params.randomized_verifying_key().to_element(), &msg, *sig.R(), *sig.z(), "a released randomized signature verifies under the randomized key");
            }
            Err(e) => {
                lab.check(same == Some(false), "aggregation fails only if the share differs from the honest one");
                if mode == 0 {
                    lab.check(err_name(&e) == "InvalidSignature" && e.culprits().is_empty(), "detection disabled: InvalidSignature, nobody named (randomized)");
                } else {
                    lab.check(e.culprits() == vec![cid], "the cheater and only the cheater is named under randomization");
                }
            }
        }
        lab.leave();
        return;
    }

    // ---- coordinator aggregates
    let r = rr::aggregate(&sess.package, &shares, &keys.1, &params);
    if !lab.check(r.is_ok(), "randomized aggregation succeeds for a valid signer set") {
        lab.leave();
        return;
    }
    let sig = r.unwrap();
    let rvk = params.randomized_verifying_key();
    spec_verify::<C, L>(lab, vk.to_element() + g::<C>() * alpha, &msg, *sig.R(), *sig.z(), "the signature verifies under group key + G * randomizer");
    lab.check(rvk.verify(&msg, &sig).is_ok(), "VerifyingKey::verify under the randomized key accepts");
    // under the original key
    if p.variant == V_EXPLICIT && p.aux == 1 {
        lab.check(vk.verify(&msg, &sig).is_ok(), "zero randomizer: the degenerate case verifies under the original key");
    } else {
        let m = lab.mark();
        let r = vk.verify(&msg, &sig);
        lab.expect_reject(m, r.is_ok(), "for a non-zero randomizer the signature does not verify under the original group key");
    }
    lab.leave();
}
