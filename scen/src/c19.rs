//! C19 — batch verification accepts exactly the batches whose every item verifies.
use crate::lab::*;
use crate::util::*;
use frost_core as fc;
use frost_core::Ciphersuite;

const V_SUBSET: u32 = 0; // n = batch size, aux = bitmask of items whose response is altered by a free non-zero error
const V_PAIR: u32 = 1; // complementary pair at positions (aux & 0xf, aux >> 4): errors e and -e
const V_KINDS: u32 = 2; // one invalid item of a given kind at a given position: aux = kind | pos << 4
const V_SINGLE: u32 = 3; // verify_single agrees with ordinary verification
pub const V_DENSE: u32 = 4; // dense-constant mode for the multiscalar kernel (blinders/challenges sampled constants)

pub fn cases(thorough: bool, seed: u64) -> Vec<Params> {
    let mut out = vec![];
    let mk = |n: u16, variant: u32, aux: u64| Params { n, t: 0, ids: IdSet::Default, subset: vec![], variant, aux, seed };
    let maxk = if thorough { 8 } else { 4 };
    for k in 0..=maxk as u16 {
        if k <= 4 {
            for mask in 0..(1u64 << k) {
                out.push(mk(k, V_SUBSET, mask));
            }
        } else {
            out.push(mk(k, V_SUBSET, 0));
            for i in 0..k {
                out.push(mk(k, V_SUBSET, 1 << i));
            }
            out.push(mk(k, V_SUBSET, (1 << k) - 1));
        }
        for i in 0..k as u64 {
            for j in (i + 1)..k as u64 {
                if k <= 4 || j == i + 1 || (i == 0 && j == k as u64 - 1) {
                    out.push(mk(k, V_PAIR, i | (j << 4)));
                }
            }
            for kind in 0..4u64 {
                if k <= 4 || i == 0 || i == k as u64 - 1 {
                    out.push(mk(k, V_KINDS, kind | (i << 4)));
                }
            }
        }
    }
    // large batches (multiscalar paths specialised by size): all valid, one invalid at either end, a cancelling pair
    for k in if thorough { vec![9u16, 17, 33, 65] } else { vec![9u16, 33] } {
        out.push(mk(k, V_SUBSET, 0));
        out.push(mk(k, V_SUBSET, 1));
        out.push(mk(k, V_SUBSET, 1 << (k.min(63) - 1)));
        out.push(mk(k, V_PAIR, 0 | (2 << 4)));
        out.push(mk(k, V_KINDS, 2 | (((k.min(15) - 1) as u64) << 4)));
    }
    for a in 0..3 {
        out.push(mk(1, V_SINGLE, a));
    }
    for k in [1u16, 2, 3, 5] {
        for s in 0..(if thorough { 6 } else { 2 }) {
            out.push(Params { n: k, t: 0, ids: IdSet::Default, subset: vec![], variant: V_DENSE, aux: s, seed: seed + s });
        }
        // structured bit patterns for blinders and challenges (aux >= 100 selects the rotation)
        for off in 0..(if thorough || k <= 3 { 18u64 } else { 6 }) {
            out.push(Params { n: k, t: 0, ids: IdSet::Default, subset: vec![], variant: V_DENSE, aux: 100 + off, seed });
        }
    }
    out
}

struct Made<C: Ciphersuite> {
    vk: fc::VerifyingKey<C>,
    msg: Vec<u8>,
    sig: fc::Signature<C>,
}

fn make<C: Ciphersuite, L: Lab<C>>(lab: &mut L, j: usize, same_key_as: Option<&Made<C>>) -> Made<C> {
    let (vk, key) = match same_key_as {
        Some(_) | None => {
            let sk = lab.nz_scalar(&format!("sk{}", if same_key_as.is_some() { 0 } else { j }));
            let key = fc::SigningKey::<C>::from_scalar(sk).unwrap();
            (fc::VerifyingKey::<C>::from(&key), key)
        }
    };
    let msg = if j % 3 == 2 { format!("literal message {j}").into_bytes() } else { lab.message(&format!("m{j}")) };
    let sig = key.sign(&mut *lab.rng(), &msg);
    Made { vk, msg, sig }
}

pub fn run<C: Ciphersuite, L: Lab<C>>(lab: &mut L, p: &Params) {
    let k = p.n as usize;
    lab.enter("batch");
    // honest items: every second item shares the first item's key (arbitrary mix of keys and messages)
    let mut made: Vec<Made<C>> = vec![];
    for j in 0..k {
        let m = if j > 0 && j % 2 == 0 { make::<C, L>(lab, j, made.first()) } else { make::<C, L>(lab, j, None) };
        made.push(m);
    }
    if p.variant == V_SINGLE {
        lab.set_policy(Pol::ForkAdv);
        let m = &made[0];
        let (sig, valid) = match p.aux {
            0 => (m.sig, true),
            1 => {
                let e = lab.adv_scalar("e");
                lab.assume_ne_s(e, zero::<C>(), "the response is altered");
                (fc::Signature::<C>::new(*m.sig.R(), *m.sig.z() + e), false)
            }
            _ => {
                let r_new = lab.adv_element("R'");
                lab.assume_ne_e(r_new, *m.sig.R(), "the commitment is altered");
                (fc::Signature::<C>::new(r_new, *m.sig.z()), false)
            }
        };
        let mk = lab.mark();
        let ordinary = m.vk.verify(&m.msg, &sig);
        if !valid {
            lab.expect_reject(mk, ordinary.is_ok(), "ordinary verification rejects the altered signature");
        }
        let item = fc::batch::Item::<C>::new(m.vk, sig, &m.msg);
        if let Ok(item) = item {
            let mk = lab.mark();
            let single = item.verify_single();
            if !valid {
                lab.expect_reject(mk, single.is_ok(), "verify_single rejects the altered signature");
            }
            lab.check(single.is_ok() == ordinary.is_ok() && ordinary.is_ok() == valid, "single-item verification agrees with ordinary verification of the same key, message and signature");
        } else {
            lab.check(false, "item builds");
        }
        lab.leave();
        return;
    }

    // ---- build the (possibly invalid) items
    let mut v = fc::batch::Verifier::<C>::new();
    let mut invalid = 0usize;
    for (j, m) in made.iter().enumerate() {
        let mut sig = m.sig;
        let mut vk = m.vk;
        let mut msg = m.msg.clone();
        match p.variant {
            V_SUBSET | V_DENSE => {
                if p.variant == V_SUBSET && j < 64 && p.aux & (1u64 << j) != 0 {
                    let e = lab.adv_scalar(&format!("e{j}"));
                    lab.assume_ne_s(e, zero::<C>(), "this item's response is altered");
                    sig = fc::Signature::<C>::new(*sig.R(), *sig.z() + e);
                    invalid += 1;
                }
            }
            V_PAIR => {
                let (a, b) = ((p.aux & 0xf) as usize, (p.aux >> 4) as usize);
                if j == a || j == b {
                    let e = lab.adv_scalar("e");
                    if j == a {
                        lab.assume_ne_s(e, zero::<C>(), "the complementary errors are non-zero");
                        sig = fc::Signature::<C>::new(*sig.R(), *sig.z() + e);
                    } else {
                        sig = fc::Signature::<C>::new(*sig.R(), *sig.z() - e);
                    }
                    invalid += 1;
                }
            }
            _ => {
                let (kind, pos) = (p.aux & 0xf, (p.aux >> 4) as usize);
                if j == pos {
                    invalid += 1;
                    match kind {
                        0 => msg = lab.message("another message"),
                        3 => {
                            // a replay: the (valid) signature and key of item 0 once more, under another message
                            if pos > 0 {
                                sig = made[0].sig;
                                vk = made[0].vk;
                            }
                            msg = lab.message("replayed under another message");
                        }
                        1 => {
                            let other = lab.adv_element("OtherKey");
                            lab.assume_ne_e(other, vk.to_element(), "another verifying key");
                            vk = fc::VerifyingKey::<C>::new(other);
                        }
                        _ => {
                            let r_new = lab.adv_element("R'");
                            lab.assume_ne_e(r_new, *sig.R(), "the commitment is altered");
                            sig = fc::Signature::<C>::new(r_new, *sig.z());
                        }
                    }
                }
            }
        }
        match fc::batch::Item::<C>::new(vk, sig, &msg) {
            Ok(it) => v.queue(it),
            Err(_) => {
                lab.check(false, "batch item builds");
            }
        }
    }
    let before = lab.rng_requests().len();
    let mk = lab.mark();
    let r = v.verify(&mut *lab.rng());
    if k == 0 {
        lab.check(r.is_err(), "the empty batch is rejected");
    } else if invalid == 0 {
        lab.check(r.is_ok(), "a batch whose every item verifies is accepted");
        lab.check(lab.rng_requests().len() > before, "the blinders come from the caller's source");
    } else {
        lab.expect_reject(mk, r.is_ok(), "a batch with an invalid item is rejected wherever it sits (also when errors are crafted to cancel)");
    }
    lab.leave();
}
