//! C20 (debug-rendering half) — the debug rendering of a secret-bearing value contains no
//! encoding of any secret scalar. The memory half (wipe on drop / on request) is engine E2 (K7).
use crate::lab::*;
use crate::util::*;
use frost_core as fc;
use frost_core::keys::dkg::{round1, round2};
use frost_core::keys::{CoefficientCommitment, KeyPackage, SecretShare, SigningShare, VerifiableSecretSharingCommitment, VerifyingShare};
use frost_core::round1::{Nonce, SigningNonces};
use frost_core::{Ciphersuite, Identifier};

pub fn cases(_thorough: bool, seed: u64) -> Vec<Params> {
    (0..9u64).map(|k| Params { n: 3, t: 2, ids: IdSet::Default, subset: vec![], variant: k as u32, aux: 0, seed }).collect()
}

pub fn run<C: Ciphersuite, L: Lab<C>>(lab: &mut L, p: &Params) {
    lab.enter("debug-rendering");
    let s1 = lab.scalar("secret1");
    let s2 = lab.scalar("secret2");
    let pub_e = lab.adv_element("SomePublicElement");
    let id = Identifier::<C>::try_from(2u16).unwrap();
    let commitment = VerifiableSecretSharingCommitment::<C>::new(vec![CoefficientCommitment::new(pub_e), CoefficientCommitment::new(pub_e + pub_e)]);
    lab.watch_serialization(true);
    let (text, secrets, what): (String, Vec<frost_core::Scalar<C>>, &str) = match p.variant {
        0 => {
            lab.assume_ne_s(s1, zero::<C>(), "a signing key is non-zero");
            match fc::SigningKey::<C>::from_scalar(s1) {
                Ok(k) => (format!("{k:?}"), vec![s1], "SigningKey"),
                Err(_) => (String::new(), vec![], "SigningKey"),
            }
        }
        1 => (format!("{:?}", SigningShare::<C>::new(s1)), vec![s1], "SigningShare"),
        2 => (format!("{:?}", SecretShare::<C>::new(id, SigningShare::new(s1), commitment.clone())), vec![s1], "SecretShare"),
        3 => (format!("{:?}", KeyPackage::<C>::new(id, SigningShare::new(s1), VerifyingShare::new(pub_e), fc::VerifyingKey::new(pub_e + pub_e), 2)), vec![s1], "KeyPackage"),
        4 => (format!("{:?}", SigningNonces::<C>::from_nonces(Nonce::from_scalar(s1), Nonce::from_scalar(s2))), vec![s1, s2], "SigningNonces"),
        5 => (format!("{:?}", round1::SecretPackage::<C>::new(id, vec![s1, s2], commitment.clone(), 2, 3)), vec![s1, s2], "dkg::round1::SecretPackage"),
        6 => (format!("{:?}", round2::SecretPackage::<C>::new(id, commitment.clone(), s1, 2, 3)), vec![s1], "dkg::round2::SecretPackage"),
        7 => (format!("{:?}", round2::Package::<C>::new(SigningShare::new(s1))), vec![s1], "dkg::round2::Package"),
        _ => {
            // control: a public value is rendered with its encoding (the watcher and the search do see things)
            let t = format!("{:?}", VerifyingShare::<C>::new(pub_e));
            lab.watch_serialization(false);
            lab.check(t.len() > 20, "control: public values are rendered with their encoding");
            lab.leave();
            return;
        }
    };
    let leak = lab.leaked(&text, &secrets);
    lab.watch_serialization(false);
    lab.check(!text.is_empty(), &format!("{what} renders"));
    lab.check(!leak, &format!("the debug rendering of {what} contains no encoding of a secret scalar"));
    lab.leave();
}
