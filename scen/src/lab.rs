//! `Lab`: the interface a scenario uses to obtain free inputs and to state obligations.
//! The same scenario source runs (a) symbolically — free inputs are variables, obligations
//! are solver queries — and (b) concretely on a real ciphersuite — free inputs come from a
//! solver model or a seeded generator, obligations are evaluated — for replay and for
//! validating the symbolic encoding against the real code.
use frost_core::{Ciphersuite, Element, Field, Group, Scalar};

#[derive(Copy, Clone, Debug, PartialEq, Eq)]
pub enum Pol {
    /// undetermined comparisons are assumed to come out "different" (generic position), logged
    Assume,
    /// every undetermined comparison forks
    Fork,
    /// zero/identity tests are assumed "non-zero", everything else forks
    ForkNonZero,
    /// comparisons involving an adversarial value fork, all others are assumed "different"
    ForkAdv,
}

pub trait Lab<C: Ciphersuite> {
    type Rng: rand_core::CryptoRng;
    fn rng(&mut self) -> &mut Self::Rng;
    fn symbolic(&self) -> bool;
    /// a free scalar (honest secret input: any value)
    fn scalar(&mut self, name: &str) -> Scalar<C>;
    /// a free scalar with the stated precondition that it is non-zero
    fn nz_scalar(&mut self, name: &str) -> Scalar<C>;
    /// an adversarially chosen scalar (never used as the free atom of rule GR)
    fn adv_scalar(&mut self, name: &str) -> Scalar<C>;
    /// an adversarially chosen group element of unknown discrete logarithm (non-identity)
    fn adv_element(&mut self, name: &str) -> Element<C>;
    /// the given secret values, as functions of the caller-source draws they depend on, are affine
    /// with constant slopes and their Jacobian has full row rank over Z_q: they are an invertible
    /// image of that many independent draws, hence jointly uniform whatever everything else is
    /// (symbolic runs only; concretely nothing can be differentiated and `true` is returned)
    fn jointly_uniform(&mut self, _values: &[Scalar<C>], _what: &str) -> bool {
        true
    }
    /// the same for the discrete logarithms of group elements (published commitments)
    fn jointly_uniform_e(&mut self, _values: &[Element<C>], _what: &str) -> bool {
        true
    }
    /// compare the suite's hash number `which` (H1..H5 of RFC 9591) on `input` — whose encoded
    /// output is `got` — with an independent transcription of the RFC (concrete runs on the real
    /// RFC suites only; symbolically hashes are uninterpreted and nothing is compared)
    fn ref_hash(&mut self, _which: u8, _input: &[u8], _got: &[u8], _what: &str) -> bool {
        true
    }
    /// an adversarial scalar like `adv_scalar`, with named candidate values it may coincide with:
    /// purely a replay aid (a counterexample in which the value equals candidate k is replayed
    /// with the concrete candidate k) — symbolically the value is just as free
    fn adv_scalar_among(&mut self, name: &str, _candidates: &[Scalar<C>]) -> Scalar<C> {
        self.adv_scalar(name)
    }
    /// an arbitrary message
    fn message(&mut self, name: &str) -> Vec<u8>;

    /// (ID) must hold for every value admitted by the path condition
    fn eq_s(&mut self, a: Scalar<C>, b: Scalar<C>, what: &str) -> bool;
    fn eq_e(&mut self, a: Element<C>, b: Element<C>, what: &str) -> bool;
    /// (EX) must differ for every value admitted by the path condition
    fn ne_s(&mut self, a: Scalar<C>, b: Scalar<C>, what: &str) -> bool;
    fn ne_e(&mut self, a: Element<C>, b: Element<C>, what: &str) -> bool;
    /// structural assertion on concrete control flow / data
    fn check(&mut self, cond: bool, what: &str) -> bool;

    fn enter(&mut self, label: &str);
    fn leave(&mut self);
    fn set_policy(&mut self, p: Pol) -> Pol;

    /// position marker for `expect_reject`
    fn mark(&mut self) -> u64;
    /// The API call made since `mark` is expected to have rejected its input (`accepted ==
    /// false`). Concretely that is the whole obligation. Symbolically, the rejecting
    /// comparison inside the real code must additionally be justified by rule GR (or EX).
    fn expect_reject(&mut self, mark: u64, accepted: bool, what: &str) -> bool;

    /// (GR) `a` and `b` differ except on a hypersurface: symbolically the residual must be affine,
    /// with provably non-zero slope, in a hash output or honest random draw; concretely a != b
    fn ne_generic_s(&mut self, a: Scalar<C>, b: Scalar<C>, what: &str) -> bool;
    fn ne_generic_e(&mut self, a: Element<C>, b: Element<C>, what: &str) -> bool;

    /// does the current path condition decide `a == b`? Some(true): entailed equal,
    /// Some(false): entailed different, None: undetermined. Concretely: Some(a == b).
    fn holds_eq_s(&mut self, a: Scalar<C>, b: Scalar<C>) -> Option<bool>;
    fn holds_eq_e(&mut self, a: Element<C>, b: Element<C>) -> Option<bool>;
    /// add a stated precondition
    fn assume_ne_s(&mut self, a: Scalar<C>, b: Scalar<C>, why: &str);
    fn assume_ne_e(&mut self, a: Element<C>, b: Element<C>, why: &str) {
        let _ = (a, b, why);
    }

    /// lengths of all requests made to the random source so far
    fn rng_requests(&self) -> Vec<usize>;
    /// Is scalar `out` a function of RNG request number `k` (0-based) with non-vanishing
    /// dependence? Symbolic: EX on out[draw+1]-out[draw]. Concrete: not checkable -> true.
    fn depends_on_draw(&mut self, out: Scalar<C>, k: usize, what: &str) -> bool;
    /// the scalar a uniform-scalar request number `k` produced (symbolic: its variable)
    fn draw_scalar(&mut self, k: usize) -> Option<Scalar<C>>;
    /// the bytes the random source returned for request number `k`
    fn draw_bytes(&mut self, k: usize) -> Option<Vec<u8>>;
    /// all values pairwise different except on a hypersurface (rule GR), or concretely
    fn all_distinct_generic(&mut self, xs: &[Scalar<C>], what: &str) -> bool;
    /// byte strings are equal: literal parts byte for byte, embedded values by rule ID
    fn eq_bytes(&mut self, a: &[u8], b: &[u8], what: &str) -> bool;
    /// numeric order of two (concrete) scalars as integers in [0, q), independent of
    /// `Identifier::cmp`
    fn cmp_scalars(&mut self, a: Scalar<C>, b: Scalar<C>) -> core::cmp::Ordering;
    /// start/stop recording which scalars the code under test turns into bytes
    fn watch_serialization(&mut self, on: bool);
    /// Does `rendered` (a debug rendering produced while watching) reveal any of `secrets`?
    /// Symbolic: a scalar depending on a secret was serialised while rendering, or the secret's
    /// block encoding occurs in the text. Concrete: the hex of a secret's encoding occurs.
    fn leaked(&mut self, rendered: &str, secrets: &[Scalar<C>]) -> bool;
    /// free-form note into the evidence
    fn note(&mut self, s: &str) {
        let _ = s;
    }
}

pub fn g<C: Ciphersuite>() -> Element<C> {
    <C::Group as Group>::generator()
}
pub fn zero<C: Ciphersuite>() -> Scalar<C> {
    <<C::Group as Group>::Field as Field>::zero()
}
pub fn one<C: Ciphersuite>() -> Scalar<C> {
    <<C::Group as Group>::Field as Field>::one()
}
pub fn ident<C: Ciphersuite>() -> Element<C> {
    <C::Group as Group>::identity()
}
pub fn ser_s<C: Ciphersuite>(s: &Scalar<C>) -> Vec<u8> {
    <<C::Group as Group>::Field as Field>::serialize(s).as_ref().to_vec()
}
pub fn u64_scalar<C: Ciphersuite>(mut v: u64) -> Scalar<C> {
    // double-and-add from field one (no From<u64> in the trait)
    let mut acc = zero::<C>();
    let mut base = one::<C>();
    while v > 0 {
        if v & 1 == 1 {
            acc = acc + base;
        }
        base = base + base;
        v >>= 1;
    }
    acc
}
