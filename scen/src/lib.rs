//! Scenario library: one module per property family, generic over the ciphersuite and the
//! `Lab` (symbolic or concrete). Uses only the public / `internals` API of the real crates.
#![allow(non_snake_case)]
#![allow(clippy::type_complexity)]
pub mod lab;
pub mod spec;
pub mod util;
pub mod c01;
pub mod c02;
pub mod c03;
pub mod c04;
pub mod c05;
pub mod c06;
pub mod c07;
pub mod c08;
pub mod c09;
pub mod c10;
pub mod c11;
pub mod c12;
pub mod c13;
pub mod c14;
pub mod c15;
pub mod c16;
pub mod c17;
pub mod c19;
pub mod c20;

pub use lab::{Lab, Pol};
pub use util::{IdSet, Params};

/// Structural sweep tiers shared by the scenario families (DESIGN.md §3.1.10)
pub fn nt_pairs(thorough: bool) -> Vec<(u16, u16)> {
    let mut v = vec![];
    let maxn = if thorough { 7 } else { 4 };
    for n in 2..=maxn {
        for t in 2..=n {
            v.push((n, t));
        }
    }
    if thorough {
        v.push((10, 7));
    } else {
        v.push((5, 3));
    }
    v
}

/// shapes with more than eight signers (multiscalar and map code is sometimes specialised by
/// size): (n, t) pairs used with the full signer set and one t-subset
pub fn large_pairs(thorough: bool) -> Vec<(u16, u16)> {
    if thorough { vec![(9, 9), (9, 5), (12, 9), (17, 9), (33, 2), (40, 33), (65, 3)] } else { vec![(9, 5), (34, 2)] }
}

pub fn id_sets(n: u16, thorough: bool, seed: u64) -> Vec<IdSet> {
    let mut v = vec![IdSet::Default, IdSet::U16(util::u16_extreme_set(n)), IdSet::Wide(seed)];
    if thorough {
        v.push(IdSet::Extreme);
        v.push(IdSet::U16((0..n).map(|i| 3 + 7 * i).collect()));
        v.push(IdSet::Wide(seed + 1));
        v.push(IdSet::Wide(seed + 2));
        v.push(IdSet::Wide(seed + 3));
    }
    v
}

use frost_rerandomized::RandomizedCiphersuite;

pub const E1_PROPS: &[&str] = &["C01", "C06"];

pub fn run_prop<C: RandomizedCiphersuite, L: Lab<C>>(prop: &str, lab: &mut L, p: &Params) {
    match prop {
        "C01" => c01::run::<C, L>(lab, p),
        "C02" => c02::run::<C, L>(lab, p),
        "C03" => c03::run::<C, L>(lab, p),
        "C04" => c04::run::<C, L>(lab, p),
        "C05" => c05::run::<C, L>(lab, p),
        "C06" => c06::run::<C, L>(lab, p),
        "C07" => c07::run::<C, L>(lab, p),
        "C08" => c08::run::<C, L>(lab, p),
        "C09" => c09::run::<C, L>(lab, p),
        "C10" => c10::run::<C, L>(lab, p),
        "C11" => c11::run::<C, L>(lab, p),
        "C12" => c12::run::<C, L>(lab, p),
        "C13" => c13::run::<C, L>(lab, p),
        "C14" => c14::run::<C, L>(lab, p),
        "C15" => c15::run::<C, L>(lab, p),
        "C16" => c16::run::<C, L>(lab, p),
        "C17" => c17::run::<C, L>(lab, p),
        "C19" => c19::run::<C, L>(lab, p),
        "C20" => c20::run::<C, L>(lab, p),
        _ => panic!("unknown property {prop}"),
    }
}
pub fn cases(prop: &str, thorough: bool, seed: u64) -> Vec<Params> {
    match prop {
        "C01" => c01::cases(thorough, seed),
        "C02" => c02::cases(thorough, seed),
        "C03" => c03::cases(thorough, seed),
        "C04" => c04::cases(thorough, seed),
        "C05" => c05::cases(thorough, seed),
        "C06" => c06::cases(thorough, seed),
        "C07" => c07::cases(thorough, seed),
        "C08" => c08::cases(thorough, seed),
        "C09" => c09::cases(thorough, seed),
        "C10" => c10::cases(thorough, seed),
        "C11" => c11::cases(thorough, seed),
        "C12" => c12::cases(thorough, seed),
        "C13" => c13::cases(thorough, seed),
        "C14" => c14::cases(thorough, seed),
        "C15" => c15::cases(thorough, seed),
        "C16" => c16::cases(thorough, seed),
        "C17" => c17::cases(thorough, seed),
        "C19" => c19::cases(thorough, seed),
        "C20" => c20::cases(thorough, seed),
        _ => panic!("unknown property {prop}"),
    }
}
