//! Independent transcription of RFC 9591 (sections 4.1-4.6, 5.1-5.3) over the abstract
//! prime-order group and hash interface of a ciphersuite. Shares no code with frost-core's
//! protocol modules: only `Field`, `Group` and `H1..H5` are used.
use crate::lab::*;
use frost_core::{Ciphersuite, Element, Field, Group, Scalar};

pub fn ser_e<C: Ciphersuite>(e: &Element<C>) -> Option<Vec<u8>> {
    <C::Group as Group>::serialize(e).ok().map(|b| b.as_ref().to_vec())
}

/// 4.1 nonce_generate(secret) with the 32 random bytes given
pub fn nonce_generate<C: Ciphersuite>(random_bytes: &[u8], secret: Scalar<C>) -> Scalar<C> {
    let mut input = random_bytes.to_vec();
    input.extend_from_slice(&ser_s::<C>(&secret));
    C::H3(&input)
}

/// one entry of the commitment list: (identifier scalar, hiding commitment, binding commitment)
pub type CommitmentList<C> = Vec<(Scalar<C>, Element<C>, Element<C>)>;

/// 4.3 encode_group_commitment_list (list must already be sorted ascending by identifier)
pub fn encode_group_commitment_list<C: Ciphersuite>(l: &CommitmentList<C>) -> Option<Vec<u8>> {
    let mut out = vec![];
    for (id, h, b) in l {
        out.extend_from_slice(&ser_s::<C>(id));
        out.extend_from_slice(&ser_e::<C>(h)?);
        out.extend_from_slice(&ser_e::<C>(b)?);
    }
    Some(out)
}

/// 4.4 compute_binding_factors: returns (rho_input, binding factor) per participant, in list order
pub fn compute_binding_factors<C: Ciphersuite>(pk: Element<C>, l: &CommitmentList<C>, msg: &[u8]) -> Option<Vec<(Vec<u8>, Scalar<C>)>> {
    let pk_enc = ser_e::<C>(&pk)?;
    let msg_hash = C::H4(msg);
    let enc_hash = C::H5(&encode_group_commitment_list::<C>(l)?);
    let mut prefix = pk_enc;
    prefix.extend_from_slice(msg_hash.as_ref());
    prefix.extend_from_slice(enc_hash.as_ref());
    let mut out = vec![];
    for (id, _, _) in l {
        let mut rho_input = prefix.clone();
        rho_input.extend_from_slice(&ser_s::<C>(id));
        let bf = C::H1(&rho_input);
        out.push((rho_input, bf));
    }
    Some(out)
}

/// 4.5 compute_group_commitment
pub fn compute_group_commitment<C: Ciphersuite>(l: &CommitmentList<C>, bfs: &[Scalar<C>]) -> Element<C> {
    let mut gc = ident::<C>();
    for ((_, h, b), bf) in l.iter().zip(bfs.iter()) {
        gc = gc + *h + *b * *bf;
    }
    gc
}

/// 4.6 compute_challenge
pub fn compute_challenge<C: Ciphersuite>(r: Element<C>, pk: Element<C>, msg: &[u8]) -> Option<Scalar<C>> {
    let mut input = ser_e::<C>(&r)?;
    input.extend_from_slice(&ser_e::<C>(&pk)?);
    input.extend_from_slice(msg);
    Some(C::H2(&input))
}

/// 4.2 derive_interpolating_value(L, x_i)
pub fn derive_interpolating_value<C: Ciphersuite>(l: &[Scalar<C>], xi: Scalar<C>) -> Option<Scalar<C>> {
    let mut num = one::<C>();
    let mut den = one::<C>();
    for xj in l {
        if *xj == xi {
            continue;
        }
        num = num * *xj;
        den = den * (*xj - xi);
    }
    let inv = <<C::Group as Group>::Field as Field>::invert(&den).ok()?;
    Some(num * inv)
}

/// 5.2 sign: the signature share
pub fn sign_share<C: Ciphersuite>(hiding: Scalar<C>, binding: Scalar<C>, bf: Scalar<C>, lambda: Scalar<C>, sk_i: Scalar<C>, challenge: Scalar<C>) -> Scalar<C> {
    hiding + binding * bf + lambda * sk_i * challenge
}
