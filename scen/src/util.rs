//! Shared scenario plumbing: parameters, identifier sets, key generation helpers, the
//! independent RFC 9591 verification equation.
use crate::lab::*;
use frost_core as fc;
use frost_core::keys::{KeyPackage, PublicKeyPackage, SecretShare};
use frost_core::{Ciphersuite, Element, Field, Group, Identifier, Scalar};
use std::collections::BTreeMap;

#[derive(Clone, Debug, PartialEq, Eq)]
pub enum IdSet {
    /// 1..=n via IdentifierList::Default
    Default,
    /// explicit u16 values
    U16(Vec<u16>),
    /// pseudo-random full-width scalars (stand-ins for hash-derived identifiers)
    Wide(u64),
    /// q-1, q-2, (q+1)/2, 2^64, ... (extreme scalars)
    Extreme,
}

#[derive(Clone, Debug)]
pub struct Params {
    pub n: u16,
    pub t: u16,
    pub ids: IdSet,
    /// indices (into the ascending identifier list) of the acting subset
    pub subset: Vec<usize>,
    /// scenario-specific variant selector
    pub variant: u32,
    /// second scenario-specific selector (fault position, history index, ...)
    pub aux: u64,
    pub seed: u64,
}
impl Params {
    pub fn describe(&self) -> String {
        format!("n={} t={} ids={:?} subset={:?} variant={} aux={}", self.n, self.t, self.ids, self.subset, self.variant, self.aux)
    }
}

pub fn splitmix(x: &mut u64) -> u64 {
    *x = x.wrapping_add(0x9E37_79B9_7F4A_7C15);
    let mut z = *x;
    z = (z ^ (z >> 30)).wrapping_mul(0xBF58_476D_1CE4_E5B9);
    z = (z ^ (z >> 27)).wrapping_mul(0x94D0_49BB_1331_11EB);
    z ^ (z >> 31)
}

pub fn scalar_from_limbs<C: Ciphersuite>(limbs: &[u64]) -> Scalar<C> {
    let two64 = {
        let mut b = one::<C>();
        for _ in 0..64 {
            b = b + b;
        }
        b
    };
    let mut acc = zero::<C>();
    for l in limbs.iter().rev() {
        acc = acc * two64 + u64_scalar::<C>(*l);
    }
    acc
}

/// the concrete identifier list (ascending) for a parameter set
pub fn identifiers<C: Ciphersuite>(p: &Params) -> Vec<Identifier<C>> {
    let mut v: Vec<Identifier<C>> = match &p.ids {
        IdSet::Default => (1..=p.n).map(|i| Identifier::<C>::try_from(i).unwrap()).collect(),
        IdSet::U16(xs) => xs.iter().map(|i| Identifier::<C>::try_from(*i).unwrap()).collect(),
        IdSet::Wide(seed) => {
            let mut s = *seed ^ 0x1d5e7;
            (0..p.n)
                .map(|_| {
                    let limbs = [splitmix(&mut s), splitmix(&mut s), splitmix(&mut s), splitmix(&mut s) >> 4];
                    Identifier::<C>::new(scalar_from_limbs::<C>(&limbs)).unwrap()
                })
                .collect()
        }
        IdSet::Extreme => {
            let z = zero::<C>();
            let o = one::<C>();
            let two = o + o;
            let half = <<C::Group as Group>::Field as Field>::invert(&two).unwrap();
            let cands = [
                z - o,                                  // q-1
                z - two,                                // q-2
                half,                                   // (q+1)/2
                scalar_from_limbs::<C>(&[0, 1]),        // 2^64
                scalar_from_limbs::<C>(&[u64::MAX]),    // 2^64-1
                o,                                      // 1
                scalar_from_limbs::<C>(&[65536]),
                scalar_from_limbs::<C>(&[0, 0, 0, 1]),  // 2^192
                z - half,
                two,
            ];
            cands.iter().take(p.n as usize).map(|s| Identifier::<C>::new(*s).unwrap()).collect()
        }
    };
    v.sort();
    v
}

pub fn u16_extreme_set(n: u16) -> Vec<u16> {
    // high-bit values first, in pairs that coincide modulo 2^15 (1 / 32769, 65535 / 32767) and the
    // lone top bit: a conversion that loses a bit produces a duplicate or a zero identifier
    let all = [1u16, 32769, 65535, 32767, 32768, 2, 255, 256, 257, 4096];
    all.iter().take(n as usize).copied().collect()
}

pub type Keys<C> = (BTreeMap<Identifier<C>, KeyPackage<C>>, PublicKeyPackage<C>);

/// trusted-dealer key generation through the real `split`, with a free (non-zero) key
pub fn dealer_keys<C: Ciphersuite, L: Lab<C>>(
    lab: &mut L,
    p: &Params,
) -> Option<(Scalar<C>, BTreeMap<Identifier<C>, SecretShare<C>>, Keys<C>)> {
    lab.enter("dealer");
    let sk = lab.nz_scalar("sk");
    let key = fc::SigningKey::<C>::from_scalar(sk);
    if !lab.check(key.is_ok(), "SigningKey::from_scalar accepts a non-zero key") {
        lab.leave();
        return None;
    }
    let key = key.unwrap();
    let ids = identifiers::<C>(p);
    let r = match &p.ids {
        IdSet::Default => fc::keys::split(&key, p.n, p.t, fc::keys::IdentifierList::Default, lab.rng()),
        _ => {
            // custom lists are handed over in a non-ascending order (rotated): the result must
            // not depend on the order of the caller's list
            let mut l = ids.clone();
            l.rotate_left(1 + (p.seed as usize % 2));
            fc::keys::split(&key, p.n, p.t, fc::keys::IdentifierList::Custom(&l), lab.rng())
        }
    };
    if !lab.check(r.is_ok(), "split succeeds on valid parameters") {
        lab.leave();
        return None;
    }
    let (shares, pubs) = r.unwrap();
    let mut kps = BTreeMap::new();
    for (id, sh) in shares.iter() {
        let kp = KeyPackage::try_from(sh.clone());
        if !lab.check(kp.is_ok(), "KeyPackage::try_from accepts an honest dealer share") {
            lab.leave();
            return None;
        }
        kps.insert(*id, kp.unwrap());
    }
    lab.leave();
    Some((sk, shares, (kps, pubs)))
}

pub struct DkgRun<C: Ciphersuite> {
    pub r1_secret: BTreeMap<Identifier<C>, fc::keys::dkg::round1::SecretPackage<C>>,
    pub r1: BTreeMap<Identifier<C>, fc::keys::dkg::round1::Package<C>>,
    pub r2_secret: BTreeMap<Identifier<C>, fc::keys::dkg::round2::SecretPackage<C>>,
    /// r2[sender][recipient]
    pub r2: BTreeMap<Identifier<C>, BTreeMap<Identifier<C>, fc::keys::dkg::round2::Package<C>>>,
}

/// honest DKG, parts 1 and 2 for every participant
pub fn dkg_parts12<C: Ciphersuite, L: Lab<C>>(lab: &mut L, p: &Params) -> Option<DkgRun<C>> {
    let ids = identifiers::<C>(p);
    let mut r1_secret = BTreeMap::new();
    let mut r1 = BTreeMap::new();
    lab.enter("dkg.part1");
    for id in &ids {
        let r = fc::keys::dkg::part1::<C, _>(*id, p.n, p.t, lab.rng());
        if !lab.check(r.is_ok(), "dkg::part1 succeeds on valid parameters") {
            lab.leave();
            return None;
        }
        let (s, pk) = r.unwrap();
        r1_secret.insert(*id, s);
        r1.insert(*id, pk);
    }
    lab.leave();
    lab.enter("dkg.part2");
    let mut r2_secret = BTreeMap::new();
    let mut r2 = BTreeMap::new();
    for id in &ids {
        let others: BTreeMap<_, _> = r1.iter().filter(|(k, _)| *k != id).map(|(k, v)| (*k, v.clone())).collect();
        let r = fc::keys::dkg::part2(r1_secret[id].clone(), &others);
        if !lab.check(r.is_ok(), "dkg::part2 accepts honest round-one packages") {
            lab.leave();
            return None;
        }
        let (s, pk) = r.unwrap();
        r2_secret.insert(*id, s);
        r2.insert(*id, pk);
    }
    lab.leave();
    Some(DkgRun { r1_secret, r1, r2_secret, r2 })
}

pub fn dkg_part3_all<C: Ciphersuite, L: Lab<C>>(lab: &mut L, p: &Params, run: &DkgRun<C>) -> Option<(Keys<C>, Vec<PublicKeyPackage<C>>)> {
    let ids = identifiers::<C>(p);
    lab.enter("dkg.part3");
    let mut kps = BTreeMap::new();
    let mut pubs = vec![];
    for id in &ids {
        let r1o: BTreeMap<_, _> = run.r1.iter().filter(|(k, _)| *k != id).map(|(k, v)| (*k, v.clone())).collect();
        let r2o: BTreeMap<_, _> = run.r2.iter().filter(|(k, _)| *k != id).map(|(k, v)| (*k, v[id].clone())).collect();
        let r = fc::keys::dkg::part3(&run.r2_secret[id], &r1o, &r2o);
        if !lab.check(r.is_ok(), "dkg::part3 accepts honest packages") {
            lab.leave();
            return None;
        }
        let (kp, pp) = r.unwrap();
        kps.insert(*id, kp);
        pubs.push(pp);
    }
    lab.leave();
    let first = pubs[0].clone();
    Some(((kps, first), pubs))
}

pub fn dkg_keys<C: Ciphersuite, L: Lab<C>>(lab: &mut L, p: &Params) -> Option<Keys<C>> {
    let run = dkg_parts12::<C, L>(lab, p)?;
    dkg_part3_all::<C, L>(lab, p, &run).map(|x| x.0)
}

/// RFC 9591 section 3.1/appendix: prime-order Schnorr verification, transcribed independently
/// of frost-core's verify path: c = H2(enc(R) || enc(PK) || msg); z*B == R + c*PK.
pub fn spec_verify<C: Ciphersuite, L: Lab<C>>(lab: &mut L, pk: Element<C>, msg: &[u8], r: Element<C>, z: Scalar<C>, what: &str) -> bool {
    let (Ok(rb), Ok(pb)) = (<C::Group as Group>::serialize(&r), <C::Group as Group>::serialize(&pk)) else {
        return lab.check(false, &format!("{what}: R and PK are serialisable (non-identity)"));
    };
    let mut pre = vec![];
    pre.extend_from_slice(rb.as_ref());
    pre.extend_from_slice(pb.as_ref());
    pre.extend_from_slice(msg);
    let c = C::H2(&pre);
    lab.eq_e(g::<C>() * z, r + pk * c, what)
}

/// all subsets of {0..n-1} with size in [lo, hi], as index vectors (n <= 16); for larger n a
/// bounded selection per size: the lexicographically first 200 combinations, the last one, and
/// one spread evenly over the range
pub fn subsets(n: usize, lo: usize, hi: usize) -> Vec<Vec<usize>> {
    let mut out = vec![];
    if n <= 16 {
        for mask in 0u32..(1u32 << n) {
            let k = mask.count_ones() as usize;
            if k >= lo && k <= hi {
                out.push((0..n).filter(|i| mask & (1 << i) != 0).collect());
            }
        }
        return out;
    }
    for k in lo..=hi.min(n) {
        if k == 0 {
            out.push(vec![]);
            continue;
        }
        // lexicographic enumeration, capped
        let mut c: Vec<usize> = (0..k).collect();
        let mut count = 0;
        loop {
            out.push(c.clone());
            count += 1;
            if count >= 200 {
                break;
            }
            // next combination
            let mut i = k;
            while i > 0 && c[i - 1] == n - k + i - 1 {
                i -= 1;
            }
            if i == 0 {
                break;
            }
            c[i - 1] += 1;
            for j in i..k {
                c[j] = c[j - 1] + 1;
            }
        }
        let last: Vec<usize> = (n - k..n).collect();
        if !out.contains(&last) {
            out.push(last);
        }
        let spread: Vec<usize> = (0..k).map(|j| j * (n - 1) / k.max(2).saturating_sub(1).max(1)).map(|x| x.min(n - 1)).collect();
        let mut sp = spread.clone();
        sp.dedup();
        if sp.len() == k && !out.contains(&sp) {
            out.push(sp);
        }
    }
    out
}

pub fn sig_share_from_scalar<C: Ciphersuite>(z: Scalar<C>) -> fc::round2::SignatureShare<C> {
    fc::round2::SignatureShare::<C>::deserialize(&ser_s::<C>(&z)).expect("scalar encodings deserialize")
}

pub struct Session<C: Ciphersuite> {
    pub signers: Vec<Identifier<C>>,
    pub nonces: BTreeMap<Identifier<C>, fc::round1::SigningNonces<C>>,
    pub commitments: BTreeMap<Identifier<C>, fc::round1::SigningCommitments<C>>,
    pub package: fc::SigningPackage<C>,
    pub message: Vec<u8>,
}

/// round one for a signer subset and the coordinator's signing package
pub fn open_session<C: Ciphersuite, L: Lab<C>>(lab: &mut L, keys: &Keys<C>, subset: &[usize], message: Vec<u8>) -> Session<C> {
    lab.enter("round1");
    let ids: Vec<Identifier<C>> = keys.0.keys().copied().collect();
    let signers: Vec<Identifier<C>> = subset.iter().map(|i| ids[*i]).collect();
    let mut nonces = BTreeMap::new();
    let mut commitments = BTreeMap::new();
    for id in &signers {
        let (nn, cc) = fc::round1::commit(keys.0[id].signing_share(), lab.rng());
        nonces.insert(*id, nn);
        commitments.insert(*id, cc);
    }
    lab.leave();
    let package = fc::SigningPackage::new(commitments.clone(), &message);
    Session { signers, nonces, commitments, package, message }
}

pub fn sign_all<C: Ciphersuite, L: Lab<C>>(lab: &mut L, keys: &Keys<C>, s: &Session<C>) -> Option<BTreeMap<Identifier<C>, fc::round2::SignatureShare<C>>> {
    lab.enter("round2.sign");
    let mut shares = BTreeMap::new();
    for id in &s.signers {
        let r = fc::round2::sign(&s.package, &s.nonces[id], &keys.0[id]);
        if !lab.check(r.is_ok(), "round2::sign succeeds for an honest signer") {
            lab.leave();
            return None;
        }
        shares.insert(*id, r.unwrap());
    }
    lab.leave();
    Some(shares)
}

impl Params {
    pub fn to_json(&self) -> serde_json::Value {
        let ids = match &self.ids {
            IdSet::Default => serde_json::json!({"kind": "default"}),
            IdSet::U16(v) => serde_json::json!({"kind": "u16", "values": v}),
            IdSet::Wide(s) => serde_json::json!({"kind": "wide", "seed": s}),
            IdSet::Extreme => serde_json::json!({"kind": "extreme"}),
        };
        serde_json::json!({"n": self.n, "t": self.t, "ids": ids, "subset": self.subset, "variant": self.variant, "aux": self.aux, "seed": self.seed})
    }
    pub fn from_json(v: &serde_json::Value) -> Option<Params> {
        let ids = match v["ids"]["kind"].as_str()? {
            "default" => IdSet::Default,
            "u16" => IdSet::U16(v["ids"]["values"].as_array()?.iter().map(|x| x.as_u64().unwrap() as u16).collect()),
            "wide" => IdSet::Wide(v["ids"]["seed"].as_u64()?),
            "extreme" => IdSet::Extreme,
            _ => return None,
        };
        Some(Params {
            n: v["n"].as_u64()? as u16,
            t: v["t"].as_u64()? as u16,
            ids,
            subset: v["subset"].as_array()?.iter().map(|x| x.as_u64().unwrap() as usize).collect(),
            variant: v["variant"].as_u64()? as u32,
            aux: v["aux"].as_u64()?,
            seed: v["seed"].as_u64()?,
        })
    }
}

// ---------------------------------------------------------------- random-source wrappers

/// a random source that returns the same bytes (cyclically) on every request
pub struct FixedRng(pub Vec<u8>);
impl rand_core::TryRng for FixedRng {
    type Error = core::convert::Infallible;
    fn try_next_u32(&mut self) -> Result<u32, Self::Error> {
        let mut b = [0u8; 4];
        self.try_fill_bytes(&mut b)?;
        Ok(u32::from_le_bytes(b))
    }
    fn try_next_u64(&mut self) -> Result<u64, Self::Error> {
        let mut b = [0u8; 8];
        self.try_fill_bytes(&mut b)?;
        Ok(u64::from_le_bytes(b))
    }
    fn try_fill_bytes(&mut self, dst: &mut [u8]) -> Result<(), Self::Error> {
        for (i, d) in dst.iter_mut().enumerate() {
            *d = if self.0.is_empty() { 0 } else { self.0[i % self.0.len()] };
        }
        Ok(())
    }
}
impl rand_core::TryCryptoRng for FixedRng {}

/// records the answers of an inner source on the first pass and replays them afterwards
pub struct ReplayRng<'a, R: rand_core::CryptoRng> {
    pub inner: &'a mut R,
    pub tape: Vec<Vec<u8>>,
    pub pos: usize,
    pub replaying: bool,
}
impl<'a, R: rand_core::CryptoRng> ReplayRng<'a, R> {
    pub fn new(inner: &'a mut R) -> Self {
        ReplayRng { inner, tape: vec![], pos: 0, replaying: false }
    }
    pub fn rewind(&mut self) {
        self.replaying = true;
        self.pos = 0;
    }
}
impl<R: rand_core::CryptoRng> rand_core::TryRng for ReplayRng<'_, R> {
    type Error = core::convert::Infallible;
    fn try_next_u32(&mut self) -> Result<u32, Self::Error> {
        let mut b = [0u8; 4];
        self.try_fill_bytes(&mut b)?;
        Ok(u32::from_le_bytes(b))
    }
    fn try_next_u64(&mut self) -> Result<u64, Self::Error> {
        let mut b = [0u8; 8];
        self.try_fill_bytes(&mut b)?;
        Ok(u64::from_le_bytes(b))
    }
    fn try_fill_bytes(&mut self, dst: &mut [u8]) -> Result<(), Self::Error> {
        if self.replaying && self.pos < self.tape.len() && self.tape[self.pos].len() == dst.len() {
            dst.copy_from_slice(&self.tape[self.pos]);
            self.pos += 1;
        } else {
            use rand_core::Rng;
            self.inner.fill_bytes(dst);
            self.tape.push(dst.to_vec());
            self.pos += 1;
        }
        Ok(())
    }
}
impl<R: rand_core::CryptoRng> rand_core::TryCryptoRng for ReplayRng<'_, R> {}

pub fn scalar_from_bytes<C: Ciphersuite>(b: &[u8]) -> Option<Scalar<C>> {
    let ser: <<C::Group as Group>::Field as Field>::Serialization = b.try_into().ok()?;
    <<C::Group as Group>::Field as Field>::deserialize(&ser).ok()
}
pub fn randomizer_scalar<C: Ciphersuite>(r: &frost_rerandomized::Randomizer<C>) -> Scalar<C> {
    scalar_from_bytes::<C>(&r.serialize()).expect("randomizer encodings decode")
}
