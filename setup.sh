#!/bin/sh
# Build the harness workspaces offline from files on disk only.
set -e
cd "$(dirname "$0")"
ROOT="$(pwd)"
export CARGO_NET_OFFLINE=true
mkdir -p .build evidence replays
cp /repo/Cargo.lock symfrost/Cargo.lock
(cd symfrost && CARGO_TARGET_DIR="$ROOT/.build/symfrost" cargo build --quiet)
(cd symfrost/symcore && CARGO_TARGET_DIR="$ROOT/.build/symfrost" cargo test --quiet)
cp /repo/Cargo.lock symfrost-tr/Cargo.lock
(cd symfrost-tr && CARGO_TARGET_DIR="$ROOT/.build/symfrost-tr" cargo build --quiet)
echo setup ok
