//! symfrost-tr — engine E1, workspace B: the real, unmodified frost-secp256k1-tr compiled
//! against stub `k256`/`sha2` crates over the symbolic term arena. Parities fork; every
//! scenario must reach every parity combination.
#![allow(non_snake_case)]
use frost_secp256k1_tr::Secp256K1Sha256TR as TR;
use scen::Params;
use std::collections::BTreeSet;
use std::time::Instant;
use symcore::{Policy, RunCfg, LAYOUT_K256};
use symlab::{CaseResult, SymLab};

// NOTE: `SymBridge for TR` lives in symlab (feature "k256-bridge") because of the orphan rule.
fn main() {
    let mut prop = String::new();
    let mut thorough = std::env::var("VERIF_TIER").map(|t| t == "thorough").unwrap_or(false);
    let mut seed: u64 = std::env::var("VERIF_SEED").ok().and_then(|s| s.parse().ok()).unwrap_or(1);
    let mut threads = std::thread::available_parallelism().map(|n| n.get()).unwrap_or(8);
    let mut out = String::new();
    let mut only_case: Option<usize> = None;
    let mut verbose = false;
    let mut helper = format!("{}/.build/symfrost/debug/symfrost", symlab::root());
    let mut it = std::env::args().skip(1);
    while let Some(x) = it.next() {
        match x.as_str() {
            "--tier" => thorough = it.next().unwrap() == "thorough",
            "--seed" => seed = it.next().unwrap().parse().unwrap(),
            "--threads" => threads = it.next().unwrap().parse().unwrap(),
            "--out" => out = it.next().unwrap(),
            "--case" => only_case = it.next().unwrap().parse().ok(),
            "--helper" => helper = it.next().unwrap(),
            "-v" => verbose = true,
            p if prop.is_empty() => prop = p.to_string(),
            other => panic!("unexpected argument {other}"),
        }
    }
    if out.is_empty() {
        out = format!("{}/evidence/{prop}.e1tr.json", symlab::root());
    }
    symlab::install_quiet_panic_hook();
    let t0 = Instant::now();
    let tier = if thorough { "thorough" } else { "quick" };
    let mut cases = scen_tr::cases(thorough, seed);
    if prop == "C02" {
        // C02's Taproot part: the signing cases on dealer keys (every share is compared with the
        // RFC 9591 / BIP-340 reference computation); the remaining Taproot cases belong to C18
        cases.retain(|c| c.variant == 0 && (c.aux >> 4) & 1 == 0);
    }
    if let Some(k) = only_case {
        cases = vec![cases[k].clone()];
    }
    let items: Vec<(usize, &str, Params)> = cases.iter().cloned().enumerate().map(|(i, c)| (i, "secp256k1", c)).collect();
    let max_paths: u64 = if thorough { 4100 } else { 1030 };
    let results: Vec<CaseResult> = symlab::par_map(&items, threads, &|(i, order, p): &(usize, &str, Params)| {
        let cfg = RunCfg {
            order: order.to_string(),
            seed: seed.wrapping_add(*i as u64 * 7919),
            policy: Policy::Assume,
            layout: LAYOUT_K256,
            final_timeout_ms: if thorough { 60000 } else { 10000 },
            cross_check: thorough || std::env::var("SYMFROST_CROSS").is_ok(),
            ..RunCfg::default()
        };
        let body = || {
            let mut lab = SymLab::<TR>::default();
            scen_tr::run(&mut lab, p);
            lab.notes
        };
        let r = symlab::explore_case(format!("[secp256k1-tr over stubs] {}", p.describe()), &cfg, max_paths, &body);
        if verbose {
            eprintln!("case {i} {} paths={} obl={} fail={} {:.2}s notes={:?}", r.desc, r.paths, r.stats.obligations, r.failures.len(), r.wall_s, r.notes);
        }
        r
    });

    // every parity combination must have been reached in every signing scenario
    let mut extra_inconclusive = vec![];
    let mut parity_report = vec![];
    for r in results.iter() {
        let combos: BTreeSet<String> = r.notes.iter().filter(|n| n.starts_with("parity ")).cloned().collect();
        if combos.is_empty() {
            continue;
        }
        let dims = combos.iter().next().map(|c| c.matches('=').count()).unwrap_or(0);
        let want = 1usize << dims;
        parity_report.push(serde_json::json!({"case": r.desc, "combinations_reached": combos.len(), "combinations": combos}));
        if combos.len() < want {
            extra_inconclusive.push(format!("vacuity: case {} reached only {} of {} parity combinations", r.desc, combos.len(), want));
        }
    }

    let helper2 = helper.clone();
    let code = symlab::report::finish(
        symlab::report::ReportArgs {
            prop: &prop,
            tier,
            seed,
            thorough,
            out: &out,
            orders: vec!["secp256k1"],
            validation_suites: vec!["secp256k1-tr"],
            max_paths,
            wall_start: t0,
            extra_inconclusive,
            extra_coverage: serde_json::json!({"parity_coverage": parity_report}),
        },
        symlab::report::MetaView {
            functions: &[
                "frost_secp256k1_tr (whole crate, unmodified): Ciphersuite impl incl. pre_sign/pre_aggregate/pre_verify/generate_nonce/challenge/compute_signature_share/verify_share/serialize_signature/deserialize_signature/post_dkg",
                "frost_secp256k1_tr::keys::{EvenY, Tweak} for KeyPackage/PublicKeyPackage/VerifyingKey/GroupCommitment/Signature/SigningKey",
                "frost_secp256k1_tr::round2::{sign, sign_with_tweak}", "frost_secp256k1_tr::{aggregate, aggregate_with_tweak}",
                "frost_core::{round1::commit, round2::sign, aggregate_custom, verify_signature_share, keys::split, keys::dkg::part1/2/3}",
            ],
            bounds: "n<=3 quick (n<=4 thorough), signer sets of size 2 (3 thorough); merkle root absent (untweaked API) / None / empty / 32-byte symbolic block / literal bytes; keys from dealer and from DKG; cheater detection in 3 modes with a free adversarial share; all parity combinations of (internal key, tweaked key, group commitment) and of every SEC1 tag byte that is hashed, forced by forking",
            stubs: &[
                "k256 -> /verif/symfrost-tr/stubs/k256: Scalar/ProjectivePoint/AffinePoint are symbolic terms; y_is_odd uninterpreted with odd(-P) = !odd(P); x(P) opaque with x(P)=x(-P); hash_to_field uninterpreted; scalar bytes one-hot positional",
                "sha2 -> /verif/symfrost-tr/stubs/sha2: SHA-256 uninterpreted over its parsed input",
                "caller RNG = SymRng",
            ],
            outside: &["libsecp256k1 and the real secp256k1/SHA-256 arithmetic (replaced by the BIP-340/BIP-341 transcription in scen-tr)", "byte-level conformance beyond the pinned vectors (repository TR vector, BIP-340 vector 0, BIP-341 wallet vector 1: symfrost pin-tr)", "n > 4"],
            assumptions: &["stub contracts: odd(-P) = !odd(P) for P != 0; x(P) = x(-P); lift_x(x(P)) is the even-y representative", "q = secp256k1 group order (prime)"],
            engine: "E1 symfrost-tr: the real frost-secp256k1-tr crate compiled against stub k256/sha2 over symbolic terms; parities fork; z3 (QF_NIA mod n) decides",
        },
        &cases,
        &items,
        &results,
        &move |_order, prop, p, seed, model| {
            // concrete runs on the real frost-secp256k1-tr happen in workspace A (real k256)
            let req = serde_json::json!({"prop": prop, "params": p.to_json(), "seed": seed, "model": model.iter().map(|(a, b)| serde_json::json!([a, b])).collect::<Vec<_>>()});
            let path = format!("{}/.build/tr-req-{}-{}.json", symlab::root(), std::process::id(), seed);
            std::fs::write(&path, req.to_string()).ok();
            let o = std::process::Command::new(&helper2).arg("tr-run").arg(&path).output();
            std::fs::remove_file(&path).ok();
            match o {
                Ok(o) => {
                    let s = String::from_utf8_lossy(&o.stdout);
                    if let Some(line) = s.lines().find(|l| l.starts_with('{')) {
                        if let Ok(v) = serde_json::from_str::<serde_json::Value>(line) {
                            let fails: Vec<String> = v["failures"].as_array().cloned().unwrap_or_default().iter().map(|x| x.as_str().unwrap_or("").to_string()).collect();
                            return (v["checks"].as_u64().unwrap_or(0), fails, "frost-secp256k1-tr".to_string());
                        }
                    }
                    (0, vec![], "frost-secp256k1-tr (helper output unreadable)".to_string())
                }
                Err(_) => (0, vec![], "frost-secp256k1-tr (helper missing)".to_string()),
            }
        },
    );
    std::process::exit(code);
}
