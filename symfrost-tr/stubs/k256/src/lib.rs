//! Stub of the k256 API surface used by frost-secp256k1(-tr): scalars and points are symbolic
//! terms; `y_is_odd` is an uninterpreted predicate with odd(-P) = !odd(P); the x-coordinate is an
//! opaque block with x(P) = x(-P); hash-to-field is uninterpreted.
#![allow(non_snake_case)]
use symcore::{E, S};
pub type FieldBytes = [u8; 32];

pub mod subtle_stub {
    #[derive(Copy, Clone, Debug)]
    pub struct Choice(pub bool);
    impl From<Choice> for bool {
        fn from(c: Choice) -> bool {
            c.0
        }
    }
    impl From<u8> for Choice {
        fn from(v: u8) -> Choice {
            Choice(v != 0)
        }
    }
    impl core::ops::Not for Choice {
        type Output = Choice;
        fn not(self) -> Choice {
            Choice(!self.0)
        }
    }
    pub struct CtOption<T>(pub Option<T>);
    impl<T> CtOption<T> {
        pub fn unwrap(self) -> T {
            self.0.unwrap()
        }
        pub fn is_some(&self) -> Choice {
            Choice(self.0.is_some())
        }
        pub fn is_none(&self) -> Choice {
            Choice(self.0.is_none())
        }
        pub fn into_option(self) -> Option<T> {
            self.0
        }
        pub fn map<U>(self, f: impl FnOnce(T) -> U) -> CtOption<U> {
            CtOption(self.0.map(f))
        }
        pub fn and_then<U>(self, f: impl FnOnce(T) -> CtOption<U>) -> CtOption<U> {
            CtOption(self.0.and_then(|x| f(x).0))
        }
    }
    impl<T> From<CtOption<T>> for Option<T> {
        fn from(c: CtOption<T>) -> Option<T> {
            c.0
        }
    }
}
pub use subtle_stub::{Choice, CtOption};

#[derive(Copy, Clone, Debug, PartialEq, Eq)]
pub struct Scalar(pub S);
impl Scalar {
    pub const ZERO: Scalar = Scalar(symcore::S_ZERO);
    pub const ONE: Scalar = Scalar(symcore::S_ONE);
    pub fn invert(&self) -> CtOption<Scalar> {
        CtOption(self.0.invert().map(Scalar))
    }
    pub fn to_bytes(&self) -> FieldBytes {
        symcore::scalar_be32(self.0)
    }
}
impl core::ops::Add for Scalar {
    type Output = Scalar;
    fn add(self, o: Scalar) -> Scalar {
        Scalar(self.0 + o.0)
    }
}
impl core::ops::Sub for Scalar {
    type Output = Scalar;
    fn sub(self, o: Scalar) -> Scalar {
        Scalar(self.0 - o.0)
    }
}
impl core::ops::Mul for Scalar {
    type Output = Scalar;
    fn mul(self, o: Scalar) -> Scalar {
        Scalar(self.0 * o.0)
    }
}
impl core::ops::Neg for Scalar {
    type Output = Scalar;
    fn neg(self) -> Scalar {
        Scalar(self.0.neg())
    }
}
impl From<S> for Scalar {
    fn from(s: S) -> Scalar {
        Scalar(s)
    }
}

#[derive(Copy, Clone, Debug, PartialEq, Eq)]
pub struct ProjectivePoint(pub E);
impl ProjectivePoint {
    pub const IDENTITY: ProjectivePoint = ProjectivePoint(symcore::elem::E_IDENTITY);
    pub const GENERATOR: ProjectivePoint = ProjectivePoint(symcore::elem::E_GENERATOR);
    pub fn to_affine(&self) -> AffinePoint {
        AffinePoint(self.0)
    }
}
impl core::ops::Add for ProjectivePoint {
    type Output = Self;
    fn add(self, o: Self) -> Self {
        ProjectivePoint(self.0 + o.0)
    }
}
impl core::ops::Sub for ProjectivePoint {
    type Output = Self;
    fn sub(self, o: Self) -> Self {
        ProjectivePoint(self.0 - o.0)
    }
}
impl core::ops::Mul<Scalar> for ProjectivePoint {
    type Output = Self;
    fn mul(self, s: Scalar) -> Self {
        ProjectivePoint(self.0 * s.0)
    }
}
impl core::ops::Neg for ProjectivePoint {
    type Output = Self;
    fn neg(self) -> Self {
        ProjectivePoint(self.0.neg())
    }
}
impl From<AffinePoint> for ProjectivePoint {
    fn from(a: AffinePoint) -> Self {
        ProjectivePoint(a.0)
    }
}

#[derive(Copy, Clone, Debug, PartialEq, Eq)]
pub struct AffinePoint(pub E);
impl AffinePoint {
    /// lift_x: the point with this x-coordinate and the requested y parity
    pub fn decompress(x: &FieldBytes, y_is_odd: Choice) -> CtOption<AffinePoint> {
        match symcore::lift_x_block(x) {
            Some(s) => {
                let even = E::from_dlog(s);
                CtOption(Some(AffinePoint(if y_is_odd.0 { even.neg() } else { even })))
            }
            None => CtOption(None),
        }
    }
}
pub struct Sec1Point([u8; 33]);
impl Sec1Point {
    pub fn from_bytes(b: impl AsRef<[u8]>) -> Result<Sec1Point, ()> {
        let b = b.as_ref();
        if b.len() != 33 || (b[0] != 2 && b[0] != 3) {
            return Err(());
        }
        let mut a = [0u8; 33];
        a.copy_from_slice(b);
        Ok(Sec1Point(a))
    }
    pub fn as_bytes(&self) -> &[u8] {
        &self.0
    }
    pub fn is_compressed(&self) -> bool {
        self.0[0] == 2 || self.0[0] == 3
    }
    pub fn is_identity(&self) -> bool {
        false
    }
}
pub struct Secp256k1;
#[derive(Copy, Clone, Debug)]
pub struct U256(S);
impl From<&Scalar> for U256 {
    fn from(s: &Scalar) -> U256 {
        U256(s.0)
    }
}
impl From<Scalar> for U256 {
    fn from(s: Scalar) -> U256 {
        U256(s.0)
    }
}
impl U256 {
    pub fn to_be_bytes(&self) -> FieldBytes {
        symcore::scalar_be32(self.0)
    }
    pub fn to_le_bytes(&self) -> FieldBytes {
        let mut b = symcore::scalar_be32(self.0);
        b.reverse();
        b
    }
    pub fn from_be_slice(b: &[u8]) -> U256 {
        match symcore::unblock32(b) {
            Some((_, h)) => U256(S(h)),
            None => U256(symcore::uf("bytes_to_int", b)),
        }
    }
}

pub mod elliptic_curve {
    pub use super::traits::*;
    pub mod ops {
        pub use super::super::traits::Reduce;
    }
    pub mod point {
        pub use super::super::traits::AffineCoordinates;
        /// marker only: the stub's `AffinePoint::decompress` is inherent
        pub trait DecompressPoint {}
        /// BIP-340 lift_x as k256 exposes it: the even-y point with the given x-coordinate
        pub trait DecompactPoint: Sized {
            fn decompact(x: &super::super::FieldBytes) -> super::super::CtOption<Self>;
        }
        impl DecompactPoint for super::super::AffinePoint {
            fn decompact(x: &super::super::FieldBytes) -> super::super::CtOption<Self> {
                super::super::AffinePoint::decompress(x, super::super::Choice(false))
            }
        }
    }
    pub mod sec1 {
        pub use super::super::traits::{FromSec1Point, ToSec1Point};
    }
    pub mod subtle {
        pub use super::super::subtle_stub::{Choice, CtOption};
    }
}
pub mod traits {
    use super::*;
    pub trait Field: Sized {
        fn random<R: rand_core::CryptoRng + ?Sized>(rng: &mut R) -> Self;
    }
    pub trait PrimeField: Sized {
        fn from_repr(b: FieldBytes) -> CtOption<Self>;
    }
    pub trait CurveAffine {
        fn is_identity(&self) -> Choice;
    }
    pub trait Reduce<T>: Sized {
        fn reduce(x: &T) -> Self;
    }
    pub trait AffineCoordinates {
        fn x(&self) -> FieldBytes;
        fn y_is_odd(&self) -> Choice;
    }
    pub trait FromSec1Point: Sized {
        fn from_sec1_point(p: &Sec1Point) -> CtOption<Self>;
    }
    pub trait ToSec1Point {
        fn to_sec1_point(&self, compress: bool) -> Sec1Point;
    }
    impl Field for Scalar {
        fn random<R: rand_core::CryptoRng + ?Sized>(rng: &mut R) -> Self {
            let mut b = [0u8; 32];
            rng.fill_bytes(&mut b);
            match symcore::unblock32(&b) {
                Some((symcore::TAG_R, h)) => Scalar(S(h)),
                _ => {
                    let mut le = b;
                    le.reverse();
                    Scalar(S::cst(symcore::U::from_le_bytes(&le)))
                }
            }
        }
    }
    impl PrimeField for Scalar {
        fn from_repr(b: FieldBytes) -> CtOption<Self> {
            CtOption(symcore::scalar_from_be32(&b).map(Scalar))
        }
    }
    impl CurveAffine for AffinePoint {
        fn is_identity(&self) -> Choice {
            Choice(self.0 == symcore::elem::E_IDENTITY)
        }
    }
    impl Reduce<U256> for Scalar {
        fn reduce(x: &U256) -> Self {
            Scalar(x.0)
        }
    }
    impl AffineCoordinates for AffinePoint {
        fn x(&self) -> FieldBytes {
            symcore::x_block(self.0.dlog())
        }
        fn y_is_odd(&self) -> Choice {
            Choice(symcore::decide_odd(self.0.dlog()))
        }
    }
    impl ToSec1Point for AffinePoint {
        fn to_sec1_point(&self, _c: bool) -> Sec1Point {
            let mut b = [0u8; 33];
            let d = self.0.dlog();
            b[0] = if symcore::decide_odd(d) { 3 } else { 2 };
            b[1..].copy_from_slice(&symcore::x_block(d));
            Sec1Point(b)
        }
    }
    impl FromSec1Point for AffinePoint {
        fn from_sec1_point(p: &Sec1Point) -> CtOption<Self> {
            match symcore::lift_x_block(&p.0[1..]) {
                Some(s) => {
                    let even = E::from_dlog(s);
                    CtOption(Some(AffinePoint(if p.0[0] == 3 { even.neg() } else { even })))
                }
                None => CtOption(None),
            }
        }
    }
}
// frost-secp256k1 (non-TR) calls to_sec1_point directly on ProjectivePoint
impl traits::ToSec1Point for ProjectivePoint {
    fn to_sec1_point(&self, c: bool) -> Sec1Point {
        traits::ToSec1Point::to_sec1_point(&self.to_affine(), c)
    }
}

pub mod hash2curve {
    use super::*;
    pub struct ExpandMsgXmd<H>(core::marker::PhantomData<H>);
    pub trait MapToCurve {
        type SecurityLevel;
        type Length;
    }
    impl MapToCurve for Secp256k1 {
        type SecurityLevel = ();
        type Length = ();
    }
    /// hash_to_field: an uninterpreted function of (domain separation tags, message)
    pub fn hash_to_field<const N: usize, X, K, T: From<S>, L>(msg: &[&[u8]], dst: &[&[u8]]) -> Result<[T; N], ()> {
        let mut name = String::from("h2f");
        for d in dst {
            name.push('/');
            name.push_str(&String::from_utf8_lossy(d));
        }
        let mut bytes: Vec<u8> = vec![];
        for m in msg {
            bytes.extend_from_slice(m);
        }
        let h = symcore::uf(&name, &bytes);
        Ok(core::array::from_fn(|_| T::from(h)))
    }
}
