//! Stub sha2: SHA-256 is an uninterpreted function of the byte string it is fed.
pub trait Digest: Sized {
    fn new() -> Self;
    fn update(&mut self, data: impl AsRef<[u8]>);
    fn finalize(self) -> [u8; 32];
    // the rest of the commonly used `digest::Digest` surface, in terms of the three above
    fn new_with_prefix(data: impl AsRef<[u8]>) -> Self {
        let mut h = Self::new();
        h.update(data);
        h
    }
    fn chain_update(mut self, data: impl AsRef<[u8]>) -> Self {
        self.update(data);
        self
    }
    fn digest(data: impl AsRef<[u8]>) -> [u8; 32] {
        Self::new_with_prefix(data).finalize()
    }
    fn finalize_into(self, out: &mut [u8; 32]) {
        *out = self.finalize();
    }
    fn finalize_reset(&mut self) -> [u8; 32]
    where
        Self: Clone,
    {
        let out = self.clone().finalize();
        *self = Self::new();
        out
    }
    fn output_size() -> usize {
        32
    }
}
#[derive(Clone, Default)]
pub struct Sha256(Vec<u8>);
impl Digest for Sha256 {
    fn new() -> Self {
        Sha256(vec![])
    }
    fn update(&mut self, data: impl AsRef<[u8]>) {
        self.0.extend_from_slice(data.as_ref());
    }
    fn finalize(self) -> [u8; 32] {
        symcore::uf_block("sha256", &self.0)
    }
}
