//! Stub sha2: SHA-256 is an uninterpreted function of the byte string it is fed.
pub trait Digest {
    fn new() -> Self;
    fn update(&mut self, data: impl AsRef<[u8]>);
    fn finalize(self) -> [u8; 32];
}
#[derive(Clone, Default)]
pub struct Sha256(Vec<u8>);
impl Digest for Sha256 {
    fn new() -> Self {
        Sha256(vec![])
    }
    fn update(&mut self, data: impl AsRef<[u8]>) {
        self.0.extend_from_slice(data.as_ref());
    }
    fn finalize(self) -> [u8; 32] {
        symcore::uf_block("sha256", &self.0)
    }
}
