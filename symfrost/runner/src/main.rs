//! symfrost — engine E1 driver: symbolic execution of the real generic FROST code over
//! `Sym`, solver-decided obligations, replay on the real ciphersuites, evidence.
#![allow(non_snake_case)]
mod meta;
mod pin;
mod refhash;
mod suite;

use scen::Params;
use serde_json::json;
use std::collections::BTreeMap;
use std::panic::{catch_unwind, AssertUnwindSafe};
use std::time::Instant;
use suite::Sym;
use symcore::{RunCfg, E, S};
use symlab::{CaseResult, ConcLab, SymBridge, SymLab};

impl SymBridge for Sym {
    fn s_in(s: S) -> S {
        s
    }
    fn s_out(s: S) -> S {
        s
    }
    fn e_in(e: E) -> E {
        e
    }
    fn e_out(e: E) -> E {
        e
    }
}

struct Args {
    prop: String,
    thorough: bool,
    seed: u64,
    threads: usize,
    replay: Option<String>,
    out: String,
    max_cases: Option<usize>,
    only_case: Option<usize>,
    verbose: bool,
}

fn parse_args() -> Args {
    let mut a = Args {
        prop: String::new(),
        thorough: std::env::var("VERIF_TIER").map(|t| t == "thorough").unwrap_or(false),
        seed: std::env::var("VERIF_SEED").ok().and_then(|s| s.parse().ok()).unwrap_or(1),
        threads: std::thread::available_parallelism().map(|n| n.get()).unwrap_or(8),
        replay: None,
        out: String::new(),
        max_cases: None,
        only_case: None,
        verbose: false,
    };
    let mut it = std::env::args().skip(1);
    while let Some(x) = it.next() {
        match x.as_str() {
            "--tier" => a.thorough = it.next().unwrap() == "thorough",
            "--seed" => a.seed = it.next().unwrap().parse().unwrap(),
            "--threads" => a.threads = it.next().unwrap().parse().unwrap(),
            "--replay" => a.replay = it.next(),
            "--out" => a.out = it.next().unwrap(),
            "--max-cases" => a.max_cases = it.next().unwrap().parse().ok(),
            "--case" => a.only_case = it.next().unwrap().parse().ok(),
            "-v" => a.verbose = true,
            p if a.prop.is_empty() => a.prop = p.to_string(),
            _ if a.prop == "tr-run" => {}
            other => panic!("unexpected argument {other}"),
        }
    }
    if a.out.is_empty() {
        a.out = format!("{}/evidence/{}.e1.json", symlab::root(), a.prop);
    }
    a
}

/// run a scenario concretely on a real ciphersuite
fn real_run<C: frost_rerandomized::RandomizedCiphersuite>(prop: &str, p: &Params, seed: u64, model: &[(String, String)]) -> (u64, Vec<String>) {
    let mut lab = ConcLab::<C>::new(seed, model);
    lab.ref_hash = match C::ID {
        "FROST-ED25519-SHA512-v1" => Some(|w, m| refhash::ref_hash("frost-ed25519", w, m)),
        "FROST-RISTRETTO255-SHA512-v1" => Some(|w, m| refhash::ref_hash("frost-ristretto255", w, m)),
        "FROST-ED448-SHAKE256-v1" => Some(|w, m| refhash::ref_hash("frost-ed448", w, m)),
        "FROST-P256-SHA256-v1" => Some(|w, m| refhash::ref_hash("frost-p256", w, m)),
        "FROST-secp256k1-SHA256-v1" => Some(|w, m| refhash::ref_hash("frost-secp256k1", w, m)),
        _ => None,
    };
    let r = catch_unwind(AssertUnwindSafe(|| scen::run_prop::<C, _>(prop, &mut lab, p)));
    let mut fails = lab.failures.clone();
    if r.is_err() {
        let m = symlab::take_panic().unwrap_or_default();
        let lookup = m.contains("no entry found for key") || m.contains("index out of bounds") || m.contains("on a `None` value") || m.contains("range end index") || m.contains("range start index") || m.contains("out of range for slice");
        if (m.contains("/scen/src/") || m.contains("/scen-tr/src/") || m.contains("/symlab/src/")) && !lookup {
            // a panic of the harness itself is no statement about the code under test:
            // the run is reported as unusable (inconclusive), never as a violation
            eprintln!("harness panic in a concrete run: {m}");
            return (0, vec![]);
        }
        fails.push(format!("panic: {m}"));
    }
    (lab.checks, fails)
}

fn real_run_tr(p: &Params, seed: u64, model: &[(String, String)]) -> (u64, Vec<String>) {
    let mut lab = ConcLab::<frost_secp256k1_tr::Secp256K1Sha256TR>::new(seed, model);
    let r = catch_unwind(AssertUnwindSafe(|| scen_tr::run(&mut lab, p)));
    let mut fails = lab.failures.clone();
    if r.is_err() {
        let m = symlab::take_panic().unwrap_or_default();
        let lookup = m.contains("no entry found for key") || m.contains("index out of bounds") || m.contains("on a `None` value") || m.contains("range end index") || m.contains("range start index") || m.contains("out of range for slice");
        if (m.contains("/scen/src/") || m.contains("/scen-tr/src/") || m.contains("/symlab/src/")) && !lookup {
            // a panic of the harness itself is no statement about the code under test:
            // the run is reported as unusable (inconclusive), never as a violation
            eprintln!("harness panic in a concrete run: {m}");
            return (0, vec![]);
        }
        fails.push(format!("panic: {m}"));
    }
    (lab.checks, fails)
}

fn real_run_on(order: &str, prop: &str, p: &Params, seed: u64, model: &[(String, String)]) -> (u64, Vec<String>, &'static str) {
    match order {
        "secp256k1-tr" => {
            let (c, f) = real_run_tr(p, seed, model);
            (c, f, "frost-secp256k1-tr")
        }
        "p256" => {
            let (c, f) = real_run::<frost_p256::P256Sha256>(prop, p, seed, model);
            (c, f, "frost-p256")
        }
        "secp256k1" => {
            let (c, f) = real_run::<frost_secp256k1::Secp256K1Sha256>(prop, p, seed, model);
            (c, f, "frost-secp256k1")
        }
        "ed448" => {
            let (c, f) = real_run::<frost_ed448::Ed448Shake256>(prop, p, seed, model);
            (c, f, "frost-ed448")
        }
        "ed25519-real" => {
            let (c, f) = real_run::<frost_ed25519::Ed25519Sha512>(prop, p, seed, model);
            (c, f, "frost-ed25519")
        }
        _ => {
            let (c, f) = real_run::<frost_ristretto255::Ristretto255Sha512>(prop, p, seed, model);
            (c, f, "frost-ristretto255")
        }
    }
}

fn main() {
    let args = parse_args();
    symlab::install_quiet_panic_hook();
    let t0 = Instant::now();
    let prop = args.prop.clone();
    let tier = if args.thorough { "thorough" } else { "quick" };

    if prop == "tr-run" {
        // helper for workspace B: run a Taproot scenario case concretely on the real crate
        let path = std::env::args().nth(2).expect("request file");
        let v: serde_json::Value = serde_json::from_str(&std::fs::read_to_string(&path).expect("request")).expect("json");
        let p = Params::from_json(&v["params"]).expect("params");
        let model: Vec<(String, String)> =
            v["model"].as_array().cloned().unwrap_or_default().iter().map(|x| (x[0].as_str().unwrap().to_string(), x[1].as_str().unwrap().to_string())).collect();
        let (checks, fails) = real_run_tr(&p, v["seed"].as_u64().unwrap_or(1), &model);
        println!("{}", json!({"checks": checks, "failures": fails}));
        std::process::exit(0);
    }
    if prop == "pin-spec" {
        let (n, mut fails) = pin::pin_all();
        println!("pin-spec: {n} values of the RFC 9591 transcription compared with the RFC vectors of 5 suites, {} mismatches", fails.len());
        let (n2, f2) = pin::pin_refhash();
        println!("pin-spec: {n2} values of the independent H1/H3/H4/H5 transcription (refhash) compared with the RFC vectors of 5 suites, {} mismatches", f2.len());
        fails.extend(f2);
        for f in &fails {
            println!("  MISMATCH {f}");
        }
        std::process::exit(if fails.is_empty() && n > 0 && n2 > 0 { 0 } else { 2 });
    }
    if prop == "pin-tr" {
        let (n, fails) = pin::pin_tr();
        println!("pin-tr: {n} values of the Taproot reference (scen-tr) compared with the repository's frost-secp256k1-tr vector, BIP-340 vector 0 and BIP-341 wallet vector 1, {} mismatches", fails.len());
        for f in &fails {
            println!("  MISMATCH {f}");
        }
        std::process::exit(if fails.is_empty() && n > 0 { 0 } else { 2 });
    }
    if let Some(path) = &args.replay {
        let v: serde_json::Value = serde_json::from_str(&std::fs::read_to_string(path).expect("replay file")).expect("json");
        let p = Params::from_json(&v["params"]).expect("params");
        let model: Vec<(String, String)> =
            v["model"].as_array().unwrap().iter().map(|x| (x[0].as_str().unwrap().to_string(), x[1].as_str().unwrap().to_string())).collect();
        // Taproot cases are explored over the stubbed build (order "secp256k1") but replayed on the real frost-secp256k1-tr
        let order = if v["suite"].as_str() == Some("frost-secp256k1-tr") { "secp256k1-tr" } else { v["order"].as_str().unwrap_or("ed25519") };
        let (checks, fails, suite) = real_run_on(order, v["property"].as_str().unwrap(), &p, v["seed"].as_u64().unwrap_or(1), &model);
        println!("replay on {suite}: {checks} concrete obligations, {} failed", fails.len());
        for f in &fails {
            println!("  FAILED: {f}");
        }
        if !fails.is_empty() {
            println!("VIOLATION property={} replay={}", v["property"].as_str().unwrap(), path);
            std::process::exit(1);
        }
        std::process::exit(0);
    }

    let mut cases = scen::cases(&prop, args.thorough, args.seed);
    if let Some(m) = args.max_cases {
        cases.truncate(m);
    }
    if let Some(k) = args.only_case {
        cases = vec![cases[k].clone()];
    }
    let orders: Vec<&str> = if args.thorough { vec!["ed25519", "secp256k1", "p256", "ed448"] } else { vec!["ed25519"] };
    let m = meta::meta(&prop);
    let items: Vec<(usize, &str, Params)> =
        orders.iter().flat_map(|o| cases.iter().cloned().enumerate().map(move |(i, c)| (i, *o, c))).collect();
    let max_paths = if args.thorough { m.max_paths_thorough } else { m.max_paths_quick };
    let propc = prop.clone();
    let results: Vec<CaseResult> = symlab::par_map(&items, args.threads, &|(i, order, p): &(usize, &str, Params)| {
        let cfg = RunCfg {
            order: order.to_string(),
            seed: args.seed.wrapping_add(*i as u64 * 7919),
            policy: m.policy,
            dense: m.dense_variant.map(|v| p.variant == v).unwrap_or(false) || m.dense_mask.map(|k| p.variant & k != 0).unwrap_or(false),
            dense_pattern: if (m.dense_variant.map(|v| p.variant == v).unwrap_or(false) || m.dense_mask.map(|k| p.variant & k != 0).unwrap_or(false)) && p.aux >= 100 { Some(p.aux - 100) } else { None },
            final_timeout_ms: if args.thorough { 60000 } else { 10000 },
            cross_check: args.thorough || std::env::var("SYMFROST_CROSS").is_ok(),
            ..RunCfg::default()
        };
        let body = || {
            let mut lab = SymLab::<Sym>::default();
            scen::run_prop::<Sym, _>(&propc, &mut lab, p);
            lab.notes
        };
        let r = symlab::explore_case(format!("[{order}] {}", p.describe()), &cfg, max_paths, &body);
        if args.verbose {
            eprintln!("case {i} {} paths={} obl={} fail={} {:.2}s", r.desc, r.paths, r.stats.obligations, r.failures.len(), r.wall_s);
        }
        r
    });

    let code = symlab::report::finish(
        symlab::report::ReportArgs {
            prop: &prop,
            tier,
            seed: args.seed,
            thorough: args.thorough,
            out: &args.out,
            orders: orders.clone(),
            validation_suites: vec!["ed25519", "p256", "secp256k1", "ed448", "ed25519-real"],
            max_paths,
            wall_start: t0,
            extra_inconclusive: vec![],
            extra_coverage: serde_json::Value::Null,
        },
        symlab::report::MetaView { functions: m.functions, bounds: m.bounds, stubs: m.stubs, outside: m.outside, assumptions: m.assumptions, engine: "E1 symfrost: native symbolic execution of the real generic code over term-valued Scalar/Element; decisions and obligations discharged by z3 (QF_NIA, mod q)" },
        &cases,
        &items,
        &results,
        &|order, prop, p, seed, model| {
            let (c, f, s) = real_run_on(order, prop, p, seed, model);
            (c, f, s.to_string())
        },
    );
    std::process::exit(code);
}
