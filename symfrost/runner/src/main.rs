//! symfrost — engine E1 driver: symbolic execution of the real generic FROST code over
//! `Sym`, solver-decided obligations, replay on the real ciphersuites, evidence.
#![allow(non_snake_case)]
mod meta;
mod pin;
mod suite;

use scen::Params;
use serde_json::json;
use std::collections::BTreeMap;
use std::panic::{catch_unwind, AssertUnwindSafe};
use std::time::Instant;
use suite::Sym;
use symcore::{RunCfg, E, S};
use symlab::{CaseResult, ConcLab, SymBridge, SymLab};

impl SymBridge for Sym {
    fn s_in(s: S) -> S {
        s
    }
    fn s_out(s: S) -> S {
        s
    }
    fn e_in(e: E) -> E {
        e
    }
    fn e_out(e: E) -> E {
        e
    }
}

struct Args {
    prop: String,
    thorough: bool,
    seed: u64,
    threads: usize,
    replay: Option<String>,
    out: String,
    max_cases: Option<usize>,
    only_case: Option<usize>,
    verbose: bool,
}

fn parse_args() -> Args {
    let mut a = Args {
        prop: String::new(),
        thorough: std::env::var("VERIF_TIER").map(|t| t == "thorough").unwrap_or(false),
        seed: std::env::var("VERIF_SEED").ok().and_then(|s| s.parse().ok()).unwrap_or(1),
        threads: std::thread::available_parallelism().map(|n| n.get()).unwrap_or(8),
        replay: None,
        out: String::new(),
        max_cases: None,
        only_case: None,
        verbose: false,
    };
    let mut it = std::env::args().skip(1);
    while let Some(x) = it.next() {
        match x.as_str() {
            "--tier" => a.thorough = it.next().unwrap() == "thorough",
            "--seed" => a.seed = it.next().unwrap().parse().unwrap(),
            "--threads" => a.threads = it.next().unwrap().parse().unwrap(),
            "--replay" => a.replay = it.next(),
            "--out" => a.out = it.next().unwrap(),
            "--max-cases" => a.max_cases = it.next().unwrap().parse().ok(),
            "--case" => a.only_case = it.next().unwrap().parse().ok(),
            "-v" => a.verbose = true,
            p if a.prop.is_empty() => a.prop = p.to_string(),
            other => panic!("unexpected argument {other}"),
        }
    }
    if a.out.is_empty() {
        a.out = format!("/verif/evidence/{}.e1.json", a.prop);
    }
    a
}

/// run a scenario concretely on a real ciphersuite
fn real_run<C: frost_rerandomized::RandomizedCiphersuite>(prop: &str, p: &Params, seed: u64, model: &[(String, String)]) -> (u64, Vec<String>) {
    let mut lab = ConcLab::<C>::new(seed, model);
    let r = catch_unwind(AssertUnwindSafe(|| scen::run_prop::<C, _>(prop, &mut lab, p)));
    let mut fails = lab.failures.clone();
    if r.is_err() {
        fails.push(format!("panic: {}", symlab::take_panic().unwrap_or_default()));
    }
    (lab.checks, fails)
}

fn real_run_on(order: &str, prop: &str, p: &Params, seed: u64, model: &[(String, String)]) -> (u64, Vec<String>, &'static str) {
    match order {
        "p256" => {
            let (c, f) = real_run::<frost_p256::P256Sha256>(prop, p, seed, model);
            (c, f, "frost-p256")
        }
        "secp256k1" => {
            let (c, f) = real_run::<frost_secp256k1::Secp256K1Sha256>(prop, p, seed, model);
            (c, f, "frost-secp256k1")
        }
        "ed448" => {
            let (c, f) = real_run::<frost_ed448::Ed448Shake256>(prop, p, seed, model);
            (c, f, "frost-ed448")
        }
        "ed25519-real" => {
            let (c, f) = real_run::<frost_ed25519::Ed25519Sha512>(prop, p, seed, model);
            (c, f, "frost-ed25519")
        }
        _ => {
            let (c, f) = real_run::<frost_ristretto255::Ristretto255Sha512>(prop, p, seed, model);
            (c, f, "frost-ristretto255")
        }
    }
}

fn load_known(prop: &str) -> Vec<(String, String)> {
    // (status, match substring)
    let mut out = vec![];
    if let Ok(s) = std::fs::read_to_string("/verif/known_findings.json") {
        if let Ok(v) = serde_json::from_str::<serde_json::Value>(&s) {
            for f in v["findings"].as_array().cloned().unwrap_or_default() {
                if f["property"].as_str() == Some(prop) {
                    out.push((f["status"].as_str().unwrap_or("").to_string(), f["match"].as_str().unwrap_or("\u{0}").to_string()));
                }
            }
        }
    }
    out
}

fn main() {
    let args = parse_args();
    symlab::install_quiet_panic_hook();
    let t0 = Instant::now();
    let prop = args.prop.clone();
    let tier = if args.thorough { "thorough" } else { "quick" };

    if prop == "pin-spec" {
        let (n, fails) = pin::pin_all();
        println!("pin-spec: {n} values of the RFC 9591 transcription compared with the RFC vectors of 5 suites, {} mismatches", fails.len());
        for f in &fails {
            println!("  MISMATCH {f}");
        }
        std::process::exit(if fails.is_empty() && n > 0 { 0 } else { 2 });
    }
    if let Some(path) = &args.replay {
        let v: serde_json::Value = serde_json::from_str(&std::fs::read_to_string(path).expect("replay file")).expect("json");
        let p = Params::from_json(&v["params"]).expect("params");
        let model: Vec<(String, String)> =
            v["model"].as_array().unwrap().iter().map(|x| (x[0].as_str().unwrap().to_string(), x[1].as_str().unwrap().to_string())).collect();
        let order = v["order"].as_str().unwrap_or("ed25519");
        let (checks, fails, suite) = real_run_on(order, v["property"].as_str().unwrap(), &p, v["seed"].as_u64().unwrap_or(1), &model);
        println!("replay on {suite}: {checks} concrete obligations, {} failed", fails.len());
        for f in &fails {
            println!("  FAILED: {f}");
        }
        if !fails.is_empty() {
            println!("VIOLATION property={} replay={}", v["property"].as_str().unwrap(), path);
            std::process::exit(1);
        }
        std::process::exit(0);
    }

    let mut cases = scen::cases(&prop, args.thorough, args.seed);
    if let Some(m) = args.max_cases {
        cases.truncate(m);
    }
    if let Some(k) = args.only_case {
        cases = vec![cases[k].clone()];
    }
    let orders: Vec<&str> = if args.thorough { vec!["ed25519", "secp256k1", "p256", "ed448"] } else { vec!["ed25519"] };
    let m = meta::meta(&prop);
    let items: Vec<(usize, &str, Params)> =
        orders.iter().flat_map(|o| cases.iter().cloned().enumerate().map(move |(i, c)| (i, *o, c))).collect();
    let max_paths = if args.thorough { m.max_paths_thorough } else { m.max_paths_quick };
    let propc = prop.clone();
    let results: Vec<CaseResult> = symlab::par_map(&items, args.threads, &|(i, order, p): &(usize, &str, Params)| {
        let cfg = RunCfg {
            order: order.to_string(),
            seed: args.seed.wrapping_add(*i as u64 * 7919),
            policy: m.policy,
            dense: m.dense_variant.map(|v| p.variant == v).unwrap_or(false),
            final_timeout_ms: if args.thorough { 60000 } else { 10000 },
            ..RunCfg::default()
        };
        let body = || {
            let mut lab = SymLab::<Sym>::default();
            scen::run_prop::<Sym, _>(&propc, &mut lab, p);
            lab.notes
        };
        let r = symlab::explore_case(format!("[{order}] {}", p.describe()), &cfg, max_paths, &body);
        if args.verbose {
            eprintln!("case {i} {} paths={} obl={} fail={} {:.2}s", r.desc, r.paths, r.stats.obligations, r.failures.len(), r.wall_s);
        }
        r
    });

    // ---- aggregate
    let mut total = symcore::Stats::default();
    let mut paths = 0u64;
    let mut failures: Vec<(usize, symcore::Failure)> = vec![];
    let mut truncated = 0;
    let mut samples = vec![];
    let mut smt_samples = vec![];
    let mut assumptions: Vec<String> = vec![];
    let mut solver_errors = vec![];
    for (k, r) in results.iter().enumerate() {
        symlab::add_stats(&mut total, &r.stats);
        paths += r.paths;
        if r.truncated {
            truncated += 1;
        }
        for f in &r.failures {
            failures.push((k, f.clone()));
        }
        if samples.len() < 8 {
            for o in r.sample_obligations.iter().take(3) {
                samples.push(json!({"case": r.desc, "rule": o.rule, "obligation": o.label, "detail": o.detail, "discharged": o.ok}));
            }
        }
        if smt_samples.len() < 2 {
            smt_samples.extend(r.sample_smt.iter().take(1).cloned());
        }
        for a in &r.assumptions {
            // strip case-specific labels to keep the list short
            let key: String = a.chars().take(90).collect();
            if assumptions.len() < 30 && !assumptions.contains(&key) {
                assumptions.push(key);
            }
        }
        solver_errors.extend(r.solver_errors.iter().cloned());
    }

    // ---- concrete validation of the encoding on the real suites
    let nval = if args.thorough { 48 } else { 12 }.min(cases.len());
    let mut validated = 0u64;
    let mut val_checks = 0u64;
    let mut conc_failures: Vec<(usize, &'static str, Vec<String>, u64)> = vec![];
    if nval > 0 {
        let step = (cases.len() / nval).max(1);
        let suites: &[&str] = if args.thorough { &["ed25519", "p256", "secp256k1", "ed448", "ed25519-real"] } else { &["ed25519", "p256"] };
        for (j, ci) in (0..cases.len()).step_by(step).take(nval).enumerate() {
            let order = suites[j % suites.len()];
            let seed = args.seed.wrapping_mul(1000).wrapping_add(j as u64);
            let (c, f, suite) = real_run_on(order, &prop, &cases[ci], seed, &[]);
            validated += 1;
            val_checks += c;
            if !f.is_empty() {
                conc_failures.push((ci, suite, f, seed));
            }
        }
    }

    // ---- classify failures: replay solver models on the real code
    let known = load_known(&prop);
    let mut violations = 0;
    let mut inconclusive = 0;
    let mut known_hits: Vec<String> = vec![];
    let mut reported: Vec<String> = vec![];
    std::fs::create_dir_all("/verif/replays").ok();
    let is_known = |label: &str| known.iter().any(|(st, m)| st == "open" && label.contains(m.as_str()));
    let mut replayed = 0u64;
    for (k, f) in failures.iter() {
        if f.inconclusive {
            inconclusive += 1;
            if reported.len() < 10 {
                reported.push(format!("INCONCLUSIVE property={prop} case={} {}: {}", results[*k].desc, f.label, f.detail));
            }
            continue;
        }
        let (ci, order, p) = &items[*k];
        let _ = ci;
        // replay only the first few distinct labels (replays are cheap but output should stay readable)
        if reported.iter().filter(|r| r.starts_with("VIOLATION")).count() >= 5 {
            violations += 1;
            continue;
        }
        let seed = args.seed;
        let (checks, cf, suite) = real_run_on(order, &prop, p, seed, &f.model);
        replayed += 1;
        if cf.is_empty() {
            inconclusive += 1;
            reported.push(format!(
                "INCONCLUSIVE property={prop} case={} symbolic failure `{}` ({}) did not reproduce on {suite} ({checks} concrete obligations passed)",
                results[*k].desc, f.label, f.detail
            ));
            continue;
        }
        if is_known(&f.label) || cf.iter().any(|c| is_known(c)) {
            let line = format!("KNOWN-FINDING: property={prop} {}", f.label);
            if !known_hits.contains(&line) {
                known_hits.push(line);
            }
            continue;
        }
        violations += 1;
        let path = format!("/verif/replays/{prop}-{}.json", violations);
        let rj = json!({
            "property": prop, "order": order, "seed": seed, "params": p.to_json(), "case": results[*k].desc,
            "symbolic_failure": {"label": f.label, "detail": f.detail},
            "model": f.model.iter().map(|(a, b)| json!([a, b])).collect::<Vec<_>>(),
            "concrete_failures_on_real_suite": cf, "suite": suite,
            "replay_cmd": format!("./check {prop} --replay {path}"),
        });
        std::fs::write(&path, serde_json::to_string_pretty(&rj).unwrap()).ok();
        reported.push(format!("VIOLATION property={prop} replay={path}"));
        reported.push(format!("  symbolic: {} — {}", f.label, f.detail));
        reported.push(format!("  reproduced on {suite}: {}", cf.join("; ")));
    }
    for (ci, suite, cf, seed) in conc_failures.iter() {
        if cf.iter().any(|c| is_known(c)) {
            let line = format!("KNOWN-FINDING: property={prop} {}", cf[0]);
            if !known_hits.contains(&line) {
                known_hits.push(line);
            }
            continue;
        }
        violations += 1;
        let path = format!("/verif/replays/{prop}-conc-{}.json", violations);
        let order = match *suite {
            "frost-p256" => "p256",
            "frost-secp256k1" => "secp256k1",
            "frost-ed448" => "ed448",
            "frost-ed25519" => "ed25519-real",
            _ => "ed25519",
        };
        let rj = json!({"property": prop, "order": order, "seed": seed, "params": cases[*ci].to_json(), "model": [],
            "concrete_failures_on_real_suite": cf, "suite": suite});
        std::fs::write(&path, serde_json::to_string_pretty(&rj).unwrap()).ok();
        reported.push(format!("VIOLATION property={prop} replay={path}"));
        reported.push(format!("  concrete run on {suite}: {}", cf.join("; ")));
    }
    if truncated > 0 {
        inconclusive += 1;
        reported.push(format!("INCONCLUSIVE property={prop}: {truncated} case(s) exceeded the path budget of {max_paths}"));
    }
    if !solver_errors.is_empty() {
        inconclusive += 1;
        reported.push(format!("INCONCLUSIVE property={prop}: solver error lines: {:?}", &solver_errors[..solver_errors.len().min(3)]));
    }
    if total.obligations == 0 {
        inconclusive += 1;
        reported.push(format!("INCONCLUSIVE property={prop}: no obligations were generated (vacuous run)"));
    }

    // ---- evidence
    let wall = t0.elapsed().as_secs_f64();
    let by_rule: BTreeMap<String, u64> = total.by_rule.iter().map(|(k, v)| (k.to_string(), *v)).collect();
    let q_hex: Vec<String> = orders.iter().map(|o| format!("{o}: 0x{}", symcore::order_hex(o))).collect();
    let ev = json!({
        "property_id": prop, "tier": tier, "seed": args.seed, "level": "model_checking",
        "coverage": {
            "states": paths.max(1), "transitions": (total.decisions_valid + total.decisions_infeasible + total.forks + total.assumed + total.obligations).max(1),
            "traces_validated_against_impl": validated + replayed,
            "samples": samples,
            "exhaustive": truncated == 0,
            "engine": "E1 symfrost: native symbolic execution of the real generic code over term-valued Scalar/Element; decisions and obligations discharged by z3 (QF_NIA, mod q)",
            "functions_encoded": m.functions,
            "bounds": { "cases": cases.len(), "orders": orders, "tier": tier, "structure": m.bounds, "max_paths_per_case": max_paths },
            "scenario_cases": items.len(), "symbolic_paths": paths,
            "obligations": total.obligations, "discharged": total.discharged, "by_rule": by_rule,
            "branch_decisions": {"valid_by_solver": total.decisions_valid, "infeasible_by_solver": total.decisions_infeasible, "forks": total.forks, "generic_position_assumptions": total.assumed},
            "solver": {"binary": std::env::var("SYMFROST_Z3").unwrap_or("/usr/bin/z3".into()), "logic": "QF_NIA with (mod _ q)", "queries": total.z3_queries, "unsat": total.z3_unsat, "sat": total.z3_sat, "unknown": total.z3_unknown, "queries_resent_after_polynomial_normalisation": total.normalized_fallbacks},
            "solver_s": total.z3_ms / 1000.0,
            "q": q_hex,
            "uf_applications": total.uf_apps, "term_nodes": total.nodes, "path_models_confirmed_by_solver": total.worlds_confirmed, "naf_multiscalar_calls_decoded": total.naf_calls,
            "concrete_validation": {"runs_on_real_suites": validated, "concrete_obligations_checked": val_checks, "failed_runs": conc_failures.len()},
            "sample_smt": smt_samples,
            "stubs": m.stubs, "outside_claim": m.outside,
            "inconclusive_events": inconclusive, "known_findings_hit": known_hits,
        },
        "assumptions": assumptions.iter().cloned().chain(m.assumptions.iter().map(|s| s.to_string())).collect::<Vec<_>>(),
        "wall_s": wall, "violations": violations,
    });
    if let Some(dir) = std::path::Path::new(&args.out).parent() {
        std::fs::create_dir_all(dir).ok();
    }
    std::fs::write(&args.out, serde_json::to_string_pretty(&ev).unwrap()).expect("write evidence");

    {
        let mut hist: BTreeMap<String, (u64, bool)> = BTreeMap::new();
        for (_, f) in failures.iter() {
            let e = hist.entry(f.label.clone()).or_insert((0, f.inconclusive));
            e.0 += 1;
        }
        for (l, (n, inc)) in hist.iter().take(25) {
            println!("  failure-label x{n}{}: {l}", if *inc { " [engine/inconclusive]" } else { "" });
        }
    }
    for l in &known_hits {
        println!("{l}");
    }
    for l in &reported {
        println!("{l}");
    }
    println!(
        "{prop} [{tier}] cases={} paths={} obligations={} discharged={} by_rule={:?} z3: {} queries ({} unsat, {} sat, {} unknown) {:.1}s solver; validated {} concrete runs; wall {:.1}s",
        items.len(), paths, total.obligations, total.discharged, total.by_rule, total.z3_queries, total.z3_unsat, total.z3_sat, total.z3_unknown, total.z3_ms / 1000.0, validated, wall
    );
    if violations > 0 {
        std::process::exit(1);
    }
    if inconclusive > 0 {
        std::process::exit(2);
    }
    std::process::exit(0);
}
