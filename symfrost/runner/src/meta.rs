//! Per-property metadata reported in the evidence.
use symcore::Policy;

pub struct Meta {
    pub policy: Policy,
    pub max_paths_quick: u64,
    pub max_paths_thorough: u64,
    pub dense_variant: Option<u32>,
    pub functions: &'static [&'static str],
    pub bounds: &'static str,
    pub stubs: &'static [&'static str],
    pub outside: &'static [&'static str],
    pub assumptions: &'static [&'static str],
}

const COMMON_STUBS: &[&str] = &[
    "Ciphersuite = Sym: Scalar/Element are term handles; H1..H5,HDKG,HID,hash_randomizer are uninterpreted functions of their parsed preimage",
    "caller RNG = SymRng: every request logged, answered with a fresh variable",
    "group = the cyclic group of the real prime order q, elements represented by their discrete logarithm",
];
const COMMON_ASSUME: &[&str] = &[
    "q is prime (Miller-Rabin, 12 bases, checked at start-up of the unit tests) => Z_q has no zero divisors (used by rules EX/GR)",
    "z3 4.8.12 is sound on the QF_NIA queries sent (cross-checked against z3 5.1 in thorough runs where stated)",
    "rustc compiles the generic code for Sym as for the real suites (monomorphisation of the same source)",
];

pub fn meta(prop: &str) -> Meta {
    let base = Meta {
        policy: Policy::Assume,
        max_paths_quick: 4096,
        max_paths_thorough: 65536,
        dense_variant: None,
        functions: &[],
        bounds: "",
        stubs: COMMON_STUBS,
        outside: &[],
        assumptions: COMMON_ASSUME,
    };
    match prop {
        "C01" => Meta {
            functions: &[
                "frost_core::keys::split", "frost_core::keys::KeyPackage::try_from", "frost_core::keys::SecretShare::verify", "frost_core::keys::dkg::part1",
                "frost_core::keys::dkg::part2", "frost_core::keys::dkg::part3", "frost_core::round1::commit", "frost_core::SigningPackage::new",
                "frost_core::round2::sign", "frost_core::verify_signature_share", "frost_core::aggregate", "frost_core::aggregate_custom",
                "frost_core::VerifyingKey::verify", "frost_core::Signature::serialize", "frost_core::Signature::deserialize",
                "frost_core::compute_lagrange_coefficient", "frost_core::compute_group_commitment", "frost_core::scalar_mul (NAF multiscalar, positional mode)",
                "frost_core::Identifier::try_from<u16>", "frost_core::Identifier::cmp",
            ],
            bounds: "quick: all 2<=t<=n<=4 and (5,3); thorough: all 2<=t<=n<=7 and (10,7). All signer subsets for default identifiers (and for n<=4), minimal and full subsets for the u16-extreme, pseudo-random full-width and extreme-scalar identifier sets. Messages: symbolic block, empty, literal, 1332-byte mixed. Keys from dealer and (n<=5) from DKG. All scalar values symbolic.",
            outside: &["real curve arithmetic and point encodings of the six suites", "ed25519-dalek verify_strict small-order/canonical checks", "n > 7 (10 in one configuration)", "symbolic identifiers"],
            ..base
        },
        "C06" => Meta {
            functions: &["frost_core::keys::split", "frost_core::keys::generate_with_dealer", "frost_core::keys::SecretShare::verify", "frost_core::keys::KeyPackage::try_from", "frost_core::keys::reconstruct", "frost_core::keys::validate_num_of_signers"],
            bounds: "quick: all 2<=t<=n<=4 and (5,3); thorough: all 2<=t<=n<=7 and (10,7); identifier sets default / u16-extreme / pseudo-random full-width (+ extreme scalars, non-contiguous, 3 more seeds in thorough). Honest consistency incl. reconstruct of every t-subset; tampering of every victim (default ids; first and last otherwise) in every coordinate: share value, each of the t commitment entries, identifier replaced by each other participant's, truncation, extension. Parameter grid {0,1,2,65534,65535}^2 and identifier-list refusals.",
            outside: &["validate_num_of_signers for all u16 pairs is decided by the Kani kernel K6 (E2)", "n > 7 (10)", "symbolic identifiers"],
            ..base
        },
        "C19" => Meta { dense_variant: Some(4), ..base },
        _ => base,
    }
}
