//! Per-property metadata reported in the evidence.
use symcore::Policy;

pub struct Meta {
    pub policy: Policy,
    pub max_paths_quick: u64,
    pub max_paths_thorough: u64,
    pub dense_variant: Option<u32>,
    /// cases whose variant has this bit set run in dense-constant mode
    pub dense_mask: Option<u32>,
    pub functions: &'static [&'static str],
    pub bounds: &'static str,
    pub stubs: &'static [&'static str],
    pub outside: &'static [&'static str],
    pub assumptions: &'static [&'static str],
}

const COMMON_STUBS: &[&str] = &[
    "Ciphersuite = Sym: Scalar/Element are term handles; H1..H5,HDKG,HID,hash_randomizer are uninterpreted functions of their parsed preimage",
    "caller RNG = SymRng: every request logged, answered with a fresh variable",
    "group = the cyclic group of the real prime order q, elements represented by their discrete logarithm",
];
const COMMON_ASSUME: &[&str] = &[
    "q is prime (Miller-Rabin, 12 bases, checked at start-up of the unit tests) => Z_q has no zero divisors (used by rules EX/GR)",
    "z3 4.8.12 is sound on the QF_NIA queries sent (cross-checked against z3 5.1 in thorough runs where stated)",
    "rustc compiles the generic code for Sym as for the real suites (monomorphisation of the same source)",
];

pub fn meta(prop: &str) -> Meta {
    let base = Meta {
        policy: Policy::Assume,
        max_paths_quick: 4096,
        max_paths_thorough: 65536,
        dense_variant: None,
        dense_mask: None,
        functions: &[],
        bounds: "",
        stubs: COMMON_STUBS,
        outside: &[],
        assumptions: COMMON_ASSUME,
    };
    match prop {
        "C01" => Meta {
            dense_mask: Some(0x100),
            functions: &[
                "frost_core::keys::split", "frost_core::keys::KeyPackage::try_from", "frost_core::keys::SecretShare::verify", "frost_core::keys::dkg::part1",
                "frost_core::keys::dkg::part2", "frost_core::keys::dkg::part3", "frost_core::round1::commit", "frost_core::SigningPackage::new",
                "frost_core::round2::sign", "frost_core::verify_signature_share", "frost_core::aggregate", "frost_core::aggregate_custom",
                "frost_core::VerifyingKey::verify", "frost_core::Signature::serialize", "frost_core::Signature::deserialize",
                "frost_core::compute_lagrange_coefficient", "frost_core::compute_group_commitment", "frost_core::scalar_mul (NAF multiscalar, positional mode)",
                "frost_core::Identifier::try_from<u16>", "frost_core::Identifier::cmp",
            ],
            bounds: "quick: all 2<=t<=n<=4 and (5,3); thorough: all 2<=t<=n<=7 and (10,7). All signer subsets for default identifiers (and for n<=4), minimal and full subsets for the u16-extreme, pseudo-random full-width and extreme-scalar identifier sets. Messages: symbolic block, empty, literal, 1332-byte mixed. Keys from dealer and (n<=5) from DKG. All scalar values symbolic. Shapes with more than eight signers: (9,5),(34,2) quick; (9,9),(9,5),(12,9),(17,9),(33,2),(40,33),(65,3) thorough (full set, top t-subset, a non-prefix (t+1)-subset).",
            outside: &["real curve arithmetic and point encodings of the six suites", "ed25519-dalek verify_strict small-order/canonical checks", "n > 7 (10 in one configuration)", "symbolic identifiers"],
            ..base
        },
        "C06" => Meta {
            functions: &["frost_core::keys::split", "frost_core::keys::generate_with_dealer", "frost_core::keys::SecretShare::verify", "frost_core::keys::KeyPackage::try_from", "frost_core::keys::reconstruct", "frost_core::keys::validate_num_of_signers"],
            bounds: "quick: all 2<=t<=n<=4 and (5,3); thorough: all 2<=t<=n<=7 and (10,7); identifier sets default / u16-extreme / pseudo-random full-width (+ extreme scalars, non-contiguous, 3 more seeds in thorough). Honest consistency incl. reconstruct of every t-subset; tampering of every victim (default ids; first and last otherwise) in every coordinate: share value, each of the t commitment entries, identifier replaced by each other participant's, truncation, extension. Parameter grid {0,1,2,65534,65535}^2 and identifier-list refusals.",
            outside: &["validate_num_of_signers for all u16 pairs is decided by the Kani kernel K6 (E2)", "n > 7 (10)", "symbolic identifiers"],
            ..base
        },
        "C02" => Meta {
            functions: &["frost_core::round1::commit / Nonce::nonce_generate_from_random_bytes", "frost_core::round1::encode_group_commitments", "frost_core::SigningPackage::binding_factor_preimages", "frost_core::compute_binding_factor_list", "frost_core::compute_group_commitment", "frost_core::challenge", "frost_core::compute_lagrange_coefficient", "frost_core::round2::sign / compute_signature_share", "frost_core::aggregate", "frost_core::Signature::serialize", "frost_core::SigningKey::sign", "frost_core::VerifyingKey::verify", "frost_core::Identifier::try_from<u16> / serialize / deserialize / cmp"],
            bounds: "differential against scen/src/spec.rs (RFC 9591 4.1-4.6, 5.2, 5.3), itself pinned to the RFC vectors of 5 suites (195 values) at every run; 34-signer shapes (up to 65 thorough); in the concrete runs on the five real suites the suites' own H1-H5 are compared with refhash.rs (independent transcription pinned to 125 RFC vector values) on the run's preimages and on 35 input lengths from 0 to 4096. All (n,t) of the sweep; all signer subsets for default identifiers, 3 subsets for the other identifier sets (u16-extreme, pseudo-random full-width; + extreme scalars, non-contiguous, 3 seeds thorough); 4 message kinds; single-signer entry point; 14 boundary u16 identifiers. Participants are ordered for the oracle by numeric value, independently of Identifier::cmp.",
            outside: &["that each crate's H1..H5 compute the RFC's hashes with the RFC's domain separation (pinned by the repository's own vectors)", "byte encodings of the real curves; u16->identifier for the dalek suites (Kani stalls)", "BIP-340 exactness is C18"],
            ..base
        },
        "C03" => Meta {
            functions: &["frost_core::round2::sign (threshold check)", "frost_core::aggregate_custom (share count check, verification)", "frost_core::keys::reconstruct", "frost_core::keys::split", "frost_core::keys::KeyPackage::new / PublicKeyPackage::new (lowered min_signers)"],
            bounds: "all (n,t) of the sweep; every coalition of size 1..t-1 for default identifiers and n<=5, the first and last (t-1)-coalition otherwise; honest and lowered min_signers; three detection modes",
            outside: &["computational unforgeability (rule GR shows the residual is affine with non-zero slope in a sharing coefficient nobody in the coalition holds)"],
            ..base
        },
        "C04" => Meta {
            functions: &["frost_core::aggregate_custom (Disabled / FirstCheater / AllCheaters)", "frost_core::detect_cheater", "frost_core::verify_signature_share", "frost_core::verify_signature_share_precomputed", "frost_core::round2::SignatureShare::verify", "frost_core::VerifyingKey::verify"],
            bounds: "every signer's share replaced by a free adversarial value (one run covers every kind of wrong share); comparisons involving adversarial values fork: all 2^|S| honest/cheating patterns incl. cancelling errors; |S| <= 4 quick, <= 5 thorough; n <= 6; structural identifier-set mismatches; large sets (everybody signs, n = 9 and 34 quick, up to 40 thorough) with adversarial shares at the first, middle and last position",
            outside: &["Taproot parity variants live in C18"],
            ..base
        },
        "C05" => Meta {
            functions: &["frost_core::round2::sign (own-entry checks)", "frost_core::verify_signature_share", "frost_core::aggregate / aggregate_custom", "frost_core::compute_binding_factor_list", "frost_core::compute_group_commitment (identity check)", "frost_core::challenge"],
            bounds: "two concurrent sessions over the same key; every non-empty filling of the signer slots with the other session's shares; every single-field substitution in the verifier's package (message, each hiding/binding commitment, participant removed/added/replaced, group key); compound substitution (D - rho*Delta, E + Delta) with the library's own binding factor and replacement by a free adversarial pair, per slot; 34-signer sets (first, second, middle, last slot); nine signer-side refusal kinds (incl. the true commitments filed under another signer's / an added participant's identifier, entries exchanged) for the first and last signer position (every position thorough); identity commitment in every slot and component; |S| <= 3 quick, <= 4 thorough, n <= 5",
            outside: &["collision resistance of the real hashes"],
            ..base
        },
        "C07" => Meta {
            functions: &["frost_core::keys::dkg::part1", "part2", "part3", "compute_proof_of_knowledge", "verify_proof_of_knowledge", "PublicKeyPackage::from_dkg_commitments", "VerifyingShare::from_commitment", "sum_commitments", "evaluate_polynomial", "evaluate_vss", "then round1::commit / round2::sign / aggregate"],
            bounds: "all (n,t) with n<=7; identifier sets default / u16-extreme / pseudo-random full-width (+ extreme, non-contiguous, 3 seeds thorough); every participant; first-t and last-t signing",
            outside: &["the unspendable Taproot tweak of post_dkg is C18"],
            ..base
        },
        "C08" => Meta {
            functions: &["frost_core::keys::dkg::part2", "part3", "verify_proof_of_knowledge", "challenge (DKG)", "SecretShare::verify", "Error::culprits"],
            bounds: "n <= 3 quick, <= 4 thorough, all t; every (receiver, sender) pair; 17 fault kinds + every commitment coefficient; control case without fault",
            outside: &["zero-knowledge / soundness of the proof of knowledge beyond rule GR"],
            ..base
        },
        "C09" => Meta {
            functions: &["frost_core::keys::dkg::part2", "part3", "then round1::commit / round2::sign / aggregate on the joint result"],
            bounds: "exhaustive: n=3 (quick), n in {3,4} (thorough), all t; two concurrent honest runs; per participant every {A,B,absent} assignment of the round-one slots and every {(run,addressee)} or absent filling of the round-two slots (225 resp. 9261 histories per participant); for every such history all 2^(n-1) round-one sets handed to part3 (which need not be the one part2 saw); all 2^n common round-one sets for the joint-agreement clause",
            outside: &["more than two concurrent runs; n > 4"],
            ..base
        },
        "C10" => Meta {
            functions: &["frost_core::keys::refresh::compute_refreshing_shares", "refresh_share", "refresh_dkg_part1", "refresh_dkg_part2", "refresh_dkg_shares", "frost_core::keys::reconstruct", "then signing"],
            bounds: "n <= 6; every remaining set R with |R| >= t for default identifiers (minimal and full for pseudo-random ones); both procedures; refreshed twice on alternate cases; every proper old/new mix of the first t signers; 7 refusal kinds",
            outside: &[],
            ..base
        },
        "C11" => Meta {
            functions: &["frost_core::keys::repairable::repair_share_part1", "compute_last_random_value", "repair_share_part2", "repair_share_part3", "frost_core::compute_lagrange_coefficient (at a point)", "then signing with the repaired share"],
            bounds: "all (n,t) with t <= n-1; every helper set t <= |H| <= n-1 for default identifiers and n<=5 (minimal and maximal otherwise); every repaired identifier outside H, plus three new identifiers (u16, 4-limb, q-3); refusals",
            outside: &[],
            ..base
        },
        "C12" => Meta {
            functions: &["serialize/deserialize and serde_json of SecretShare, KeyPackage, PublicKeyPackage (incl. pre-3.0 form), SigningNonces, SigningCommitments, SigningPackage, dkg round1::Package, round1::SecretPackage, round2::SecretPackage, round2::Package", "fixed-size: Identifier, SigningShare, VerifyingShare, VerifyingKey, SignatureShare, Nonce, NonceCommitment, CoefficientCommitment, Delta, Sigma, Signature, Randomizer, SigningKey, VerifiableSecretSharingCommitment (list and whole)", "frost_core::serialization::{Serialize, Deserialize, version_deserialize, ciphersuite_deserialize}"],
            bounds: "E1 half: n <= 5, three identifier sets, symbolic payloads; header mutations (version byte, each of the 4 ciphersuite-id bytes), truncation, empty string, JSON decoded four ways (from_str, from a reader, from a parsed Value, with \\u002d escapes) and with other suite id / version / unknown field; zero identifier, zero signing key. Canonicity of the real encodings is the E2 half.",
            outside: &["point decoding of the real curves", "trailing bytes after a complete postcard package"],
            ..base
        },
        "C13" => Meta {
            functions: &["frost_core::keys::dkg::part2/part3 from restored round1/round2 SecretPackage", "refresh_dkg_part2 / refresh_dkg_shares from restored state", "round2::sign from restored SigningNonces / KeyPackage / SigningPackage", "aggregate with restored PublicKeyPackage", "refresh_share from restored state", "repair_share_part1 from restored KeyPackage", "serialize/deserialize + serde_json of each"],
            bounds: "n <= 5, every participant (first and last for n>3 quick), binary and JSON; boundary grid {2,3,127,128,255,256,300,32768,65535}^2 for min_signers/max_signers of the stored packages; size sweep of real round-one/round-two state with t = n in {128,1024,2049} (quick) / 15 sizes from 127 to 4096 (thorough), binary and JSON",
            outside: &[],
            ..base
        },
        "C14" => Meta {
            functions: &["round2::sign, aggregate_custom, verify_signature_share, batch::Verifier::verify", "SecretShare::verify, KeyPackage::try_from, reconstruct, PublicKeyPackage::from_commitment / from_dkg_commitments", "dkg::part2, dkg::part3", "compute_refreshing_shares, refresh_share, refresh_dkg_part2", "repair_share_part1/2/3", "deserialize of every package type on prefixes and single-byte mutations"],
            bounds: "(n,t) in {(2,2),(3,2),(3,3)} (+(4,2),(4,3) thorough); empty / one-entry / oversized / duplicated / mutually inconsistent / equivocating-peer inputs; commitment vectors of 65536 + t entries into KeyPackage::try_from / dkg part2 / part3 (concrete runs on the real suites only: a 65536-term symbolic sum exhausts the term arena); public key packages recording threshold 0/1/n/n+1/65535 into refresh, aggregation and repair; (max,min) boundary pairs into part1/refresh part1; adversarial scalars and elements fork; catch_unwind with overflow checks and debug assertions on",
            outside: &["dishonest own state", "byte strings beyond the E2 bounds", "third-party crates on well-typed input"],
            ..base
        },
        "C15" => Meta {
            functions: &["frost_core::round1::preprocess", "commit", "SigningNonces::new", "Nonce::new", "Nonce::nonce_generate_from_random_bytes", "NonceCommitment::from"],
            bounds: "preprocess(k) for k in {0,1,2,3,4,17,32,33,64,65,127,128,255}; 1-3 consecutive commits; repeating and constant random sources; all share values and all source outputs symbolic",
            outside: &["uniformity of the real suites' Field::random"],
            ..base
        },
        "C16" => Meta {
            functions: &["keys::generate_with_dealer", "keys::split", "keys::dkg::part1", "refresh::compute_refreshing_shares", "refresh::refresh_dkg_part1", "repairable::repair_share_part1", "frost_rerandomized::RandomizedParams::new_from_commitments", "SigningKey::new / sign", "batch::Verifier::verify"],
            bounds: "all (n,t) of the sweep per entry point; repair with minimal and maximal helper sets; batch sizes 1-4 (1-8 thorough)",
            outside: &[],
            ..base
        },
        "C17" => Meta {
            functions: &["frost_rerandomized::RandomizedParams::new_from_commitments / regenerate_from_seed_and_commitments / from_randomizer", "Randomizer::regenerate_from_seed_and_commitments", "sign_with_randomizer_seed", "sign (explicit randomizer)", "aggregate", "aggregate_custom", "Randomize for KeyPackage / PublicKeyPackage"],
            bounds: "n <= 5; all subsets for n <= 3 and default identifiers, minimal and full otherwise; seed-based and explicit (free non-zero / zero) randomizers; participant view tampered in seed, participant set, each hiding/binding/whole commitment; one adversarial share per slot in the three detection modes; below-threshold refusals compared with the plain aggregation's (same error, same culprits) in every detection mode",
            outside: &[],
            ..base
        },
        "C20" => Meta {
            functions: &["Debug for SigningKey, SigningShare, SecretShare, KeyPackage, SigningNonces, dkg::round1::SecretPackage, dkg::round2::SecretPackage, dkg::round2::Package"],
            bounds: "debug-rendering half only (memory half is E2/K7): every listed type rendered with its secret scalars as tainted symbolic terms; no solver obligations in this half — decided by the executor's serialisation log and a search for the secrets' block encodings",
            outside: &["contents of freed heap; compiler elision of zeroing stores"],
            ..base
        },
        "C19" => Meta {
            dense_variant: Some(4),
            functions: &["frost_core::batch::Item::new", "Item::verify_single", "batch::Verifier::queue / verify", "frost_core::scalar_mul::VartimeMultiscalarMul (NAF width 5, positional and dense-constant mode)", "VerifyingKey::verify / verify_prehashed"],
            bounds: "batch sizes 0..4 quick / 0..8 thorough; mixed keys (every second item shares the first key) and messages; every subset of altered responses (sizes <= 4; singles and all beyond), complementary pairs, wrong message / wrong key / altered commitment at every position; dense-constant runs with sampled full-width blinders and challenges (naf_dense_scalars_sampled)",
            outside: &["batch sizes 9..64"],
            ..base
        },
        _ => base,
    }
}
