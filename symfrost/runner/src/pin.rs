//! Pin the RFC 9591 transcription (`scen::spec`) to the RFC's own test vectors, using the
//! real ciphersuites concretely: every value the transcription computes from the vector's
//! inputs must equal the vector's expected hex.
use frost_core::{Ciphersuite, Field, Group, Scalar, Element};
use scen::spec;
use serde_json::Value;

fn unhex(s: &str) -> Vec<u8> {
    (0..s.len() / 2).map(|i| u8::from_str_radix(&s[2 * i..2 * i + 2], 16).unwrap()).collect()
}
fn hex(b: &[u8]) -> String {
    b.iter().map(|x| format!("{x:02x}")).collect()
}
fn scalar<C: Ciphersuite>(h: &str) -> Scalar<C> {
    let b = unhex(h);
    let ser: <<C::Group as Group>::Field as Field>::Serialization = b.as_slice().try_into().ok().expect("scalar length");
    <<C::Group as Group>::Field as Field>::deserialize(&ser).expect("scalar")
}
fn element<C: Ciphersuite>(h: &str) -> Element<C> {
    let b = unhex(h);
    let ser: <C::Group as Group>::Serialization = b.as_slice().try_into().ok().expect("element length");
    <C::Group as Group>::deserialize(&ser).expect("element")
}
fn ser_s<C: Ciphersuite>(s: &Scalar<C>) -> String {
    hex(<<C::Group as Group>::Field as Field>::serialize(s).as_ref())
}
fn ser_e<C: Ciphersuite>(e: &Element<C>) -> String {
    hex(<C::Group as Group>::serialize(e).expect("non-identity").as_ref())
}

pub fn pin<C: Ciphersuite>(path: &str) -> (u64, Vec<String>) {
    let v: Value = serde_json::from_str(&std::fs::read_to_string(path).expect("vectors")).expect("json");
    let mut checks = 0u64;
    let mut fails = vec![];
    let mut chk = |ok: bool, what: String| {
        checks += 1;
        if !ok {
            fails.push(format!("{path}: {what}"));
        }
    };
    let inputs = &v["inputs"];
    let pk = element::<C>(inputs["verifying_key_key"].as_str().unwrap());
    let sk = scalar::<C>(inputs["group_secret_key"].as_str().unwrap());
    chk(ser_e::<C>(&(<C::Group as Group>::generator() * sk)) == inputs["verifying_key_key"].as_str().unwrap(), "PK = G*sk".into());
    let msg = unhex(inputs["message"].as_str().unwrap());
    let shares: std::collections::BTreeMap<u64, Scalar<C>> = inputs["participant_shares"]
        .as_array()
        .unwrap()
        .iter()
        .map(|s| (s["identifier"].as_u64().unwrap(), scalar::<C>(s["participant_share"].as_str().unwrap())))
        .collect();
    let outs = v["round_one_outputs"]["outputs"].as_array().unwrap();
    let mut list: spec::CommitmentList<C> = vec![];
    let mut nonces = vec![];
    let mut idents = vec![];
    for o in outs {
        let idn = o["identifier"].as_u64().unwrap();
        let id = scen::lab::u64_scalar::<C>(idn);
        let share = shares[&idn];
        let hn = spec::nonce_generate::<C>(&unhex(o["hiding_nonce_randomness"].as_str().unwrap()), share);
        let bn = spec::nonce_generate::<C>(&unhex(o["binding_nonce_randomness"].as_str().unwrap()), share);
        chk(ser_s::<C>(&hn) == o["hiding_nonce"].as_str().unwrap(), format!("hiding nonce of {idn}"));
        chk(ser_s::<C>(&bn) == o["binding_nonce"].as_str().unwrap(), format!("binding nonce of {idn}"));
        let (hc, bc) = (<C::Group as Group>::generator() * hn, <C::Group as Group>::generator() * bn);
        chk(ser_e::<C>(&hc) == o["hiding_nonce_commitment"].as_str().unwrap(), format!("hiding commitment of {idn}"));
        chk(ser_e::<C>(&bc) == o["binding_nonce_commitment"].as_str().unwrap(), format!("binding commitment of {idn}"));
        list.push((id, hc, bc));
        nonces.push((hn, bn));
        idents.push(idn);
    }
    let bfs = spec::compute_binding_factors::<C>(pk, &list, &msg).expect("binding factors");
    for (j, o) in outs.iter().enumerate() {
        chk(hex(&bfs[j].0) == o["binding_factor_input"].as_str().unwrap(), format!("binding_factor_input of {}", idents[j]));
        chk(ser_s::<C>(&bfs[j].1) == o["binding_factor"].as_str().unwrap(), format!("binding_factor of {}", idents[j]));
    }
    let bf_vals: Vec<_> = bfs.iter().map(|x| x.1).collect();
    let r = spec::compute_group_commitment::<C>(&list, &bf_vals);
    let c = spec::compute_challenge::<C>(r, pk, &msg).expect("challenge");
    let xs: Vec<_> = list.iter().map(|x| x.0).collect();
    let mut z = <<C::Group as Group>::Field as Field>::zero();
    let outs2 = v["round_two_outputs"]["outputs"].as_array().unwrap();
    for (j, o) in outs2.iter().enumerate() {
        let lam = spec::derive_interpolating_value::<C>(&xs, xs[j]).expect("lambda");
        let zi = spec::sign_share::<C>(nonces[j].0, nonces[j].1, bf_vals[j], lam, shares[&idents[j]], c);
        chk(ser_s::<C>(&zi) == o["sig_share"].as_str().unwrap(), format!("sig_share of {}", idents[j]));
        z = z + zi;
    }
    let sig = format!("{}{}", ser_e::<C>(&r), ser_s::<C>(&z));
    chk(sig == v["final_output"]["sig"].as_str().unwrap(), "final signature".into());
    (checks, fails)
}

pub fn pin_all() -> (u64, Vec<String>) {
    let mut total = 0;
    let mut fails = vec![];
    macro_rules! run {
        ($c:ty, $dir:expr) => {
            for f in ["vectors.json", "vectors-big-identifier.json"] {
                let p = format!("/repo/{}/tests/helpers/{}", $dir, f);
                if std::path::Path::new(&p).exists() {
                    let r = std::panic::catch_unwind(|| pin::<$c>(&p));
                    match r {
                        Ok((c, f)) => {
                            total += c;
                            fails.extend(f);
                        }
                        Err(_) => fails.push(format!("{p}: transcription panicked")),
                    }
                }
            }
        };
    }
    run!(frost_ristretto255::Ristretto255Sha512, "frost-ristretto255");
    run!(frost_ed25519::Ed25519Sha512, "frost-ed25519");
    run!(frost_p256::P256Sha256, "frost-p256");
    run!(frost_secp256k1::Secp256K1Sha256, "frost-secp256k1");
    run!(frost_ed448::Ed448Shake256, "frost-ed448");
    (total, fails)
}

// ------------------------------------------------------------------ Taproot

fn hx<const N: usize>(s: &str) -> [u8; N] {
    let v: Vec<u8> = (0..s.len() / 2).map(|i| u8::from_str_radix(&s[2 * i..2 * i + 2], 16).unwrap()).collect();
    let mut o = [0u8; N];
    o.copy_from_slice(&v);
    o
}

/// The Taproot reference of scen-tr against (a) the repository's frost-secp256k1-tr vector,
/// (b) BIP-340 test vector 0, (c) the first BIP-341 wallet vector (key-path only output key).
pub fn pin_tr() -> (usize, Vec<String>) {
    let mut n = 0usize;
    let mut bad = vec![];
    let path = "/repo/frost-secp256k1-tr/tests/helpers/vectors.json";
    let v: serde_json::Value = match std::fs::read_to_string(path).ok().and_then(|s| serde_json::from_str(&s).ok()) {
        Some(v) => v,
        None => return (0, vec![format!("cannot read {path}")]),
    };
    let s = |x: &serde_json::Value| x.as_str().unwrap_or("").to_string();
    let gk: [u8; 33] = hx(&s(&v["inputs"]["verifying_key_key"]));
    let msg: Vec<u8> = {
        let m = s(&v["inputs"]["message"]);
        (0..m.len() / 2).map(|i| u8::from_str_radix(&m[2 * i..2 * i + 2], 16).unwrap()).collect()
    };
    let mut signers = vec![];
    for o in v["round_one_outputs"]["outputs"].as_array().unwrap() {
        let id = o["identifier"].as_u64().unwrap() as u16;
        let share = v["inputs"]["participant_shares"].as_array().unwrap().iter().find(|p| p["identifier"].as_u64() == Some(id as u64)).map(|p| s(&p["participant_share"])).unwrap();
        let want_share = v["round_two_outputs"]["outputs"].as_array().unwrap().iter().find(|p| p["identifier"].as_u64() == Some(id as u64)).map(|p| s(&p["sig_share"])).unwrap();
        signers.push(scen_tr::PinSigner {
            id,
            share: hx(&share),
            hiding: hx(&s(&o["hiding_nonce"])),
            binding: hx(&s(&o["binding_nonce"])),
            hiding_c: hx(&s(&o["hiding_nonce_commitment"])),
            binding_c: hx(&s(&o["binding_nonce_commitment"])),
            want_bf: hx(&s(&o["binding_factor"])),
            want_share: hx(&want_share),
        });
    }
    let sig: [u8; 64] = hx(&s(&v["final_output"]["sig"]));
    let (k, b) = scen_tr::pin_reference(&gk, &msg, &signers, &sig);
    n += k;
    bad.extend(b);
    // BIP-340 test vector 0 (secret key 3, all-zero message and auxiliary randomness)
    let pk: [u8; 32] = hx("F9308A019258C31049344F85F89D5229B531C845836F99B08601F113BCE036F9");
    let sig0: [u8; 64] = hx("E907831F80848D1069A5371B402410364BDF1C5F8307B0084C55F1CE2DCA821525F66A4A85EA8B71E482A74F382D2CE5EBEEE8FDB2172F477DF4900D310536C0");
    n += 1;
    if !scen_tr::bip340_accepts(&pk, &[0u8; 32], &sig0) {
        bad.push("BIP-340 test vector 0 is rejected by the verifier transcription".into());
    }
    // BIP-341 wallet test vector 1: internal key, no script tree
    let internal: [u8; 32] = hx("d6889cb081036e0faefa3a35157ad71086b123b2b144b649798b494c300a961d");
    let want: [u8; 32] = hx("53a1f6e454df1aa2776a2814a721372d6258050de330b3c6d10ee8f4e0dda343");
    n += 1;
    if scen_tr::bip341_output_x(&internal, b"") != Some(want) {
        bad.push("BIP-341 wallet vector 1 (key-path-only output key)".into());
    }
    (n, bad)
}

// ------------------------------------------------------------------ independent hash transcription


/// `refhash` (the independent H1/H3/H4/H5 transcription) against the RFC 9591 vectors of the
/// five suites, using nothing of the library: nonce = H3(randomness || share), binding factor =
/// H1(binding_factor_input), and the two middle pieces of binding_factor_input are H4(message)
/// and H5(encoded commitment list).
pub fn pin_refhash() -> (usize, Vec<String>) {
    let mut n = 0usize;
    let mut bad = vec![];
    // (crate dir, suite name for refhash, element length, hash length, scalar length, little-endian identifiers)
    let suites = [
        ("frost-ristretto255", 32usize, 64usize, 32usize, true),
        ("frost-ed25519", 32, 64, 32, true),
        ("frost-ed448", 57, 114, 57, true),
        ("frost-p256", 33, 32, 32, false),
        ("frost-secp256k1", 33, 32, 32, false),
    ];
    for (dir, elen, hlen, slen, le) in suites {
        for f in ["vectors.json", "vectors-big-identifier.json"] {
            let path = format!("/repo/{dir}/tests/helpers/{f}");
            let Some(v) = std::fs::read_to_string(&path).ok().and_then(|s| serde_json::from_str::<serde_json::Value>(&s).ok()) else { continue };
            let s = |x: &serde_json::Value| x.as_str().unwrap_or("").to_string();
            let msg = unhex(&s(&v["inputs"]["message"]));
            let mut enc = vec![];
            let outs = v["round_one_outputs"]["outputs"].as_array().cloned().unwrap_or_default();
            for o in outs.iter() {
                let id = o["identifier"].as_u64().unwrap_or(0);
                let mut idb = vec![0u8; slen];
                for k in 0..8 {
                    let b = (id >> (8 * k)) as u8;
                    if le {
                        idb[k] = b;
                    } else {
                        idb[slen - 1 - k] = b;
                    }
                }
                enc.extend_from_slice(&idb);
                enc.extend_from_slice(&unhex(&s(&o["hiding_nonce_commitment"])));
                enc.extend_from_slice(&unhex(&s(&o["binding_nonce_commitment"])));
            }
            for o in outs.iter() {
                let id = o["identifier"].as_u64().unwrap_or(0);
                let share = v["inputs"]["participant_shares"].as_array().unwrap().iter().find(|p| p["identifier"].as_u64() == Some(id)).map(|p| unhex(&s(&p["participant_share"]))).unwrap_or_default();
                for (r, want) in [("hiding_nonce_randomness", "hiding_nonce"), ("binding_nonce_randomness", "binding_nonce")] {
                    let mut pre = unhex(&s(&o[r]));
                    pre.extend_from_slice(&share);
                    n += 1;
                    if crate::refhash::ref_hash(dir, 3, &pre) != Some(unhex(&s(&o[want]))) {
                        bad.push(format!("{dir}/{f}: H3 for {want} of participant {id}"));
                    }
                }
                let bfi = unhex(&s(&o["binding_factor_input"]));
                n += 1;
                if crate::refhash::ref_hash(dir, 1, &bfi) != Some(unhex(&s(&o["binding_factor"]))) {
                    bad.push(format!("{dir}/{f}: H1 for the binding factor of participant {id}"));
                }
                if bfi.len() >= elen + 2 * hlen {
                    n += 2;
                    if crate::refhash::ref_hash(dir, 4, &msg).as_deref() != Some(&bfi[elen..elen + hlen]) {
                        bad.push(format!("{dir}/{f}: H4(message)"));
                    }
                    if crate::refhash::ref_hash(dir, 5, &enc).as_deref() != Some(&bfi[elen + hlen..elen + 2 * hlen]) {
                        bad.push(format!("{dir}/{f}: H5(encoded commitment list)"));
                    }
                }
            }
        }
    }
    (n, bad)
}
