//! An independent transcription of the hash functions H1–H5 of RFC 9591 §6.1–6.5 for the five
//! RFC suites, written from the RFC text on top of the bare primitives (SHA-512, SHA-256,
//! SHAKE256) and its own modular reduction / expand_message_xmd — it shares no code with the
//! ciphersuite crates under test. Used only on the concrete side (validation runs, replays,
//! pin-spec): symbolically the hashes are uninterpreted, so how a suite crate wires its inputs
//! into them is invisible to the solver; here that wiring is compared on the concrete inputs of
//! every validation run (messages: random block, empty, literal, 1332 bytes).
use sha2::{Digest, Sha256, Sha512};
use sha3::digest::{ExtendableOutput, Update, XofReader};

/// big-endian bytes -> value mod n, by shift-and-subtract (n given as big-endian hex)
fn reduce_be(input_be: &[u8], n_hex: &str, out_len: usize) -> Vec<u8> {
    let n: Vec<u8> = {
        let h = if n_hex.len() % 2 == 1 { format!("0{n_hex}") } else { n_hex.to_string() };
        (0..h.len() / 2).map(|i| u8::from_str_radix(&h[2 * i..2 * i + 2], 16).unwrap()).collect()
    };
    let w = n.len() + 1;
    let mut nn = vec![0u8; w];
    nn[1..].copy_from_slice(&n);
    let mut acc = vec![0u8; w]; // big-endian, one spare byte
    let ge = |a: &[u8], b: &[u8]| a.iter().zip(b.iter()).find(|(x, y)| x != y).map(|(x, y)| x > y).unwrap_or(true);
    for byte in input_be {
        for bit in (0..8).rev() {
            // acc = acc * 2 + bit
            let mut carry = (byte >> bit) & 1;
            for x in acc.iter_mut().rev() {
                let v = ((*x as u16) << 1) | carry as u16;
                *x = v as u8;
                carry = (v >> 8) as u8;
            }
            if ge(&acc, &nn) {
                let mut borrow = 0i16;
                for (x, y) in acc.iter_mut().rev().zip(nn.iter().rev()) {
                    let v = *x as i16 - *y as i16 - borrow;
                    if v < 0 {
                        *x = (v + 256) as u8;
                        borrow = 1;
                    } else {
                        *x = v as u8;
                        borrow = 0;
                    }
                }
            }
        }
    }
    let mut out = vec![0u8; out_len];
    let take = out_len.min(w);
    out[out_len - take..].copy_from_slice(&acc[w - take..]);
    out
}

fn sha512(parts: &[&[u8]]) -> Vec<u8> {
    let mut h = Sha512::new();
    for p in parts {
        Digest::update(&mut h, p);
    }
    h.finalize().to_vec()
}
fn sha256(parts: &[&[u8]]) -> Vec<u8> {
    let mut h = Sha256::new();
    for p in parts {
        Digest::update(&mut h, p);
    }
    h.finalize().to_vec()
}
fn shake256_114(parts: &[&[u8]]) -> Vec<u8> {
    let mut h = shake::Shake256::default();
    for p in parts {
        h.update(p);
    }
    let mut r = h.finalize_xof();
    let mut out = vec![0u8; 114];
    r.read(&mut out);
    out
}

/// RFC 9380 §5.3.1 expand_message_xmd with SHA-256, then §5.2 hash_to_field with m = 1, count = 1, L = 48
fn hash_to_field_sha256(msg: &[u8], dst: &[u8], n_hex: &str) -> Vec<u8> {
    let len_in_bytes = 48usize;
    let mut dst_prime = dst.to_vec();
    dst_prime.push(dst.len() as u8);
    let z_pad = [0u8; 64];
    let l_i_b = [(len_in_bytes >> 8) as u8, len_in_bytes as u8];
    let b0 = sha256(&[&z_pad, msg, &l_i_b, &[0u8], &dst_prime]);
    let b1 = sha256(&[&b0, &[1u8], &dst_prime]);
    let x: Vec<u8> = b0.iter().zip(b1.iter()).map(|(a, b)| a ^ b).collect();
    let b2 = sha256(&[&x, &[2u8], &dst_prime]);
    let mut uniform = b1;
    uniform.extend_from_slice(&b2);
    uniform.truncate(len_in_bytes);
    reduce_be(&uniform, n_hex, 32)
}

fn le_wide_mod(bytes_le: &[u8], n_hex: &str, out_len: usize) -> Vec<u8> {
    let mut be = bytes_le.to_vec();
    be.reverse();
    let mut r = reduce_be(&be, n_hex, out_len);
    r.reverse();
    r
}

/// `which` = 1..=5; returns the suite's encoding of the output (scalar encodings for H1–H3)
pub fn ref_hash(suite: &str, which: u8, m: &[u8]) -> Option<Vec<u8>> {
    let tag: &[u8] = match which {
        1 => b"rho",
        2 => b"chal",
        3 => b"nonce",
        4 => b"msg",
        5 => b"com",
        _ => return None,
    };
    match suite {
        "frost-ed25519" | "frost-ristretto255" => {
            let ctx: &[u8] = if suite == "frost-ed25519" { b"FROST-ED25519-SHA512-v1" } else { b"FROST-RISTRETTO255-SHA512-v1" };
            let n = symcore::order_hex("ed25519");
            let d = if which == 2 && suite == "frost-ed25519" { sha512(&[m]) } else { sha512(&[ctx, tag, m]) };
            Some(if which <= 3 { le_wide_mod(&d, &n, 32) } else { d })
        }
        "frost-ed448" => {
            let ctx: &[u8] = b"FROST-ED448-SHAKE256-v1";
            let n = symcore::order_hex("ed448");
            let d = if which == 2 { shake256_114(&[b"SigEd448", &[0u8], &[0u8], m]) } else { shake256_114(&[ctx, tag, m]) };
            Some(if which <= 3 { le_wide_mod(&d, &n, 57) } else { d })
        }
        "frost-p256" | "frost-secp256k1" => {
            let ctx: &[u8] = if suite == "frost-p256" { b"FROST-P256-SHA256-v1" } else { b"FROST-secp256k1-SHA256-v1" };
            let n = symcore::order_hex(if suite == "frost-p256" { "p256" } else { "secp256k1" });
            if which <= 3 {
                let mut dst = ctx.to_vec();
                dst.extend_from_slice(tag);
                Some(hash_to_field_sha256(m, &dst, &n))
            } else {
                Some(sha256(&[ctx, tag, m]))
            }
        }
        _ => None,
    }
}
