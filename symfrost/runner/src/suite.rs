//! `Sym`: a `frost_core::Ciphersuite` whose scalars and elements are symbolic terms.
#![allow(non_snake_case)]
use core::convert::Infallible;
use frost_core::{Ciphersuite, Field, FieldError, Group, GroupError};
use rand_core::{TryCryptoRng, TryRng};
use symcore::elem::SLEN;
use symcore::{E, S};

#[derive(Copy, Clone, PartialEq, Eq, Debug)]
pub struct SymField;
impl Field for SymField {
    type Scalar = S;
    type Serialization = [u8; SLEN];
    fn zero() -> S {
        symcore::S_ZERO
    }
    fn one() -> S {
        symcore::S_ONE
    }
    fn invert(s: &S) -> Result<S, FieldError> {
        if *s == symcore::S_ZERO {
            return Err(FieldError::InvalidZeroScalar);
        }
        s.invert().ok_or(FieldError::InvalidZeroScalar)
    }
    fn random<R: rand_core::CryptoRng>(rng: &mut R) -> S {
        let mut b = [0u8; 32];
        rng.fill_bytes(&mut b);
        match symcore::unblock32(&b) {
            Some((symcore::TAG_R, h)) => S(h),
            _ => S::cst(symcore::U::from_le_bytes(&b)),
        }
    }
    fn serialize(s: &S) -> [u8; SLEN] {
        symcore::scalar_serialize(*s)
    }
    fn little_endian_serialize(s: &S) -> [u8; SLEN] {
        symcore::scalar_le_positional(*s)
    }
    fn deserialize(b: &[u8; SLEN]) -> Result<S, FieldError> {
        symcore::scalar_deserialize(b).ok_or(FieldError::MalformedScalar)
    }
}

#[derive(Copy, Clone, PartialEq, Eq, Debug)]
pub struct SymGroup;
impl Group for SymGroup {
    type Field = SymField;
    type Element = E;
    type Serialization = [u8; 32];
    fn cofactor() -> S {
        symcore::S_ONE
    }
    fn identity() -> E {
        symcore::elem::E_IDENTITY
    }
    fn generator() -> E {
        symcore::elem::E_GENERATOR
    }
    fn serialize(e: &E) -> Result<[u8; 32], GroupError> {
        if *e == symcore::elem::E_IDENTITY {
            return Err(GroupError::InvalidIdentityElement);
        }
        Ok(symcore::element_serialize(*e))
    }
    fn deserialize(b: &[u8; 32]) -> Result<E, GroupError> {
        let e = symcore::element_deserialize(b).ok_or(GroupError::MalformedElement)?;
        if e == symcore::elem::E_IDENTITY {
            return Err(GroupError::InvalidIdentityElement);
        }
        Ok(e)
    }
}

#[derive(Copy, Clone, PartialEq, Eq, Debug)]
pub struct Sym;
pub const SIGLEN: usize = 32 + SLEN;
impl Ciphersuite for Sym {
    const ID: &'static str = "FROST-SYMBOLIC-UF-v1";
    type Group = SymGroup;
    type HashOutput = [u8; 32];
    type SignatureSerialization = [u8; SIGLEN];
    fn H1(m: &[u8]) -> S {
        symcore::uf("H1", m)
    }
    fn H2(m: &[u8]) -> S {
        symcore::uf("H2", m)
    }
    fn H3(m: &[u8]) -> S {
        symcore::uf("H3", m)
    }
    fn H4(m: &[u8]) -> [u8; 32] {
        symcore::uf_block("H4", m)
    }
    fn H5(m: &[u8]) -> [u8; 32] {
        symcore::uf_block("H5", m)
    }
    fn HDKG(m: &[u8]) -> Option<S> {
        Some(symcore::uf("HDKG", m))
    }
    fn HID(m: &[u8]) -> Option<S> {
        Some(symcore::uf("HID", m))
    }
}
impl frost_rerandomized::RandomizedCiphersuite for Sym {
    fn hash_randomizer(m: &[u8]) -> Option<S> {
        Some(symcore::uf("HR", m))
    }
}

/// The caller-supplied random source: every request is logged and answered with a fresh
/// symbolic block (or, in dense mode, pseudo-random constants).
pub struct SymRng;
impl TryRng for SymRng {
    type Error = Infallible;
    fn try_next_u32(&mut self) -> Result<u32, Infallible> {
        let mut b = [0u8; 4];
        self.try_fill_bytes(&mut b)?;
        Ok(u32::from_le_bytes(b))
    }
    fn try_next_u64(&mut self) -> Result<u64, Infallible> {
        let mut b = [0u8; 8];
        self.try_fill_bytes(&mut b)?;
        Ok(u64::from_le_bytes(b))
    }
    fn try_fill_bytes(&mut self, dst: &mut [u8]) -> Result<(), Infallible> {
        let v = symcore::rng_draw(dst.len());
        dst.copy_from_slice(&v);
        Ok(())
    }
}
impl TryCryptoRng for SymRng {}

pub type Id = frost_core::Identifier<Sym>;
