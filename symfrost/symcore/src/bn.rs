//! Fixed-width big integers: `U` (512-bit unsigned, arithmetic modulo a run-time prime q)
//! and `Big` (wide signed integers used as element coefficients by the positional
//! NAF trick). No external crates: the sandbox has no bigint crate in its registry.

pub const NL: usize = 8;

#[derive(Clone, Copy, PartialEq, Eq, Hash, Debug, Default)]
pub struct U(pub [u64; NL]);

impl PartialOrd for U {
    fn partial_cmp(&self, o: &U) -> Option<core::cmp::Ordering> {
        Some(self.cmp(o))
    }
}
impl Ord for U {
    fn cmp(&self, o: &U) -> core::cmp::Ordering {
        for i in (0..NL).rev() {
            if self.0[i] != o.0[i] {
                return self.0[i].cmp(&o.0[i]);
            }
        }
        core::cmp::Ordering::Equal
    }
}

impl U {
    pub const ZERO: U = U([0; NL]);
    pub const ONE: U = U([1, 0, 0, 0, 0, 0, 0, 0]);
    pub fn from_u64(v: u64) -> U {
        let mut r = [0; NL];
        r[0] = v;
        U(r)
    }
    pub fn from_u128(v: u128) -> U {
        let mut r = [0; NL];
        r[0] = v as u64;
        r[1] = (v >> 64) as u64;
        U(r)
    }
    pub fn is_zero(&self) -> bool {
        self.0.iter().all(|x| *x == 0)
    }
    pub fn from_hex(s: &str) -> U {
        let s = s.trim_start_matches("0x");
        let mut r = [0u64; NL];
        let mut nib = 0usize;
        for ch in s.bytes().rev() {
            if ch == b'_' {
                continue;
            }
            let d = (ch as char).to_digit(16).expect("hex digit") as u64;
            assert!(nib / 16 < NL, "hex literal too wide");
            r[nib / 16] |= d << (4 * (nib % 16));
            nib += 1;
        }
        U(r)
    }
    pub fn to_hex(&self) -> String {
        let mut s = String::new();
        let mut started = false;
        for i in (0..NL).rev() {
            if started {
                s.push_str(&format!("{:016x}", self.0[i]));
            } else if self.0[i] != 0 {
                s.push_str(&format!("{:x}", self.0[i]));
                started = true;
            }
        }
        if !started {
            s.push('0');
        }
        s
    }
    pub fn from_le_bytes(b: &[u8]) -> U {
        assert!(b.len() <= NL * 8);
        let mut r = [0u64; NL];
        for (i, x) in b.iter().enumerate() {
            r[i / 8] |= (*x as u64) << (8 * (i % 8));
        }
        U(r)
    }
    pub fn to_le_bytes(&self) -> [u8; NL * 8] {
        let mut b = [0u8; NL * 8];
        for i in 0..NL {
            b[8 * i..8 * i + 8].copy_from_slice(&self.0[i].to_le_bytes());
        }
        b
    }
    pub fn bits(&self) -> usize {
        for i in (0..NL).rev() {
            if self.0[i] != 0 {
                return 64 * i + 64 - self.0[i].leading_zeros() as usize;
            }
        }
        0
    }
    pub fn bit(&self, i: usize) -> bool {
        (self.0[i / 64] >> (i % 64)) & 1 == 1
    }
    /// (self + o, carry)
    pub fn adc(&self, o: &U) -> (U, bool) {
        let mut r = [0u64; NL];
        let mut c = 0u128;
        for i in 0..NL {
            let s = self.0[i] as u128 + o.0[i] as u128 + c;
            r[i] = s as u64;
            c = s >> 64;
        }
        (U(r), c != 0)
    }
    /// (self - o, borrow)
    pub fn sbb(&self, o: &U) -> (U, bool) {
        let mut r = [0u64; NL];
        let mut b = 0u64;
        for i in 0..NL {
            let (d1, b1) = self.0[i].overflowing_sub(o.0[i]);
            let (d2, b2) = d1.overflowing_sub(b);
            r[i] = d2;
            b = (b1 | b2) as u64;
        }
        (U(r), b != 0)
    }
    pub fn to_dec(&self) -> String {
        // repeated division by 10^19
        let mut limbs = self.0;
        let mut chunks: Vec<u64> = vec![];
        const D: u64 = 10_000_000_000_000_000_000;
        loop {
            if limbs.iter().all(|x| *x == 0) {
                break;
            }
            let mut rem: u128 = 0;
            for i in (0..NL).rev() {
                let cur = (rem << 64) | limbs[i] as u128;
                limbs[i] = (cur / D as u128) as u64;
                rem = cur % D as u128;
            }
            chunks.push(rem as u64);
        }
        if chunks.is_empty() {
            return "0".into();
        }
        let mut s = format!("{}", chunks[chunks.len() - 1]);
        for c in chunks.iter().rev().skip(1) {
            s.push_str(&format!("{:019}", c));
        }
        s
    }
    pub fn from_dec(s: &str) -> U {
        let mut r = U::ZERO;
        for ch in s.bytes() {
            let d = (ch - b'0') as u64;
            // r = r*10 + d
            let mut c: u128 = d as u128;
            for i in 0..NL {
                let v = r.0[i] as u128 * 10 + c;
                r.0[i] = v as u64;
                c = v >> 64;
            }
            assert!(c == 0, "decimal literal too wide");
        }
        r
    }
}

/// A prime modulus with the data Knuth's algorithm D needs.
#[derive(Clone, Debug)]
pub struct Modulus {
    pub q: U,
    n: usize,    // significant limbs of q
    shift: u32,  // normalisation shift
    qn: [u64; NL], // q << shift (top limb has its high bit set)
}

impl Modulus {
    pub fn new(q: U) -> Modulus {
        assert!(!q.is_zero());
        let mut n = NL;
        while q.0[n - 1] == 0 {
            n -= 1;
        }
        let shift = q.0[n - 1].leading_zeros();
        let mut qn = [0u64; NL];
        for i in (0..n).rev() {
            qn[i] = q.0[i] << shift;
            if shift > 0 && i > 0 {
                qn[i] |= q.0[i - 1] >> (64 - shift);
            }
        }
        Modulus { q, n, shift, qn }
    }
    /// Reduce a 2*NL-limb value modulo q (Knuth, TAOCP vol. 2, 4.3.1 algorithm D).
    pub fn reduce_wide(&self, x: &[u64; 2 * NL]) -> U {
        let n = self.n;
        let s = self.shift;
        // u = x << s, with one extra limb
        let mut u = [0u64; 2 * NL + 1];
        if s == 0 {
            u[..2 * NL].copy_from_slice(x);
        } else {
            for i in 0..2 * NL {
                u[i] |= x[i] << s;
                u[i + 1] |= x[i] >> (64 - s);
            }
        }
        let m = 2 * NL - n; // quotient has m+1 limbs
        let v = &self.qn;
        for j in (0..=m).rev() {
            // estimate qhat from the top two limbs
            let num = ((u[j + n] as u128) << 64) | u[j + n - 1] as u128;
            let mut qhat = num / v[n - 1] as u128;
            let mut rhat = num % v[n - 1] as u128;
            while qhat >> 64 != 0
                || (n >= 2 && qhat * v[n - 2] as u128 > ((rhat << 64) | u[j + n - 2] as u128))
            {
                qhat -= 1;
                rhat += v[n - 1] as u128;
                if rhat >> 64 != 0 {
                    break;
                }
            }
            // multiply and subtract
            let mut borrow: i128 = 0;
            let mut carry: u128 = 0;
            for i in 0..n {
                let p = qhat * v[i] as u128 + carry;
                carry = p >> 64;
                let t = u[i + j] as i128 - (p as u64) as i128 + borrow;
                u[i + j] = t as u64;
                borrow = t >> 64;
            }
            let t = u[j + n] as i128 - carry as i128 + borrow;
            u[j + n] = t as u64;
            if t < 0 {
                // add back
                let mut c: u128 = 0;
                for i in 0..n {
                    let sacc = u[i + j] as u128 + v[i] as u128 + c;
                    u[i + j] = sacc as u64;
                    c = sacc >> 64;
                }
                u[j + n] = u[j + n].wrapping_add(c as u64);
            }
        }
        // remainder = u[0..n] >> s
        let mut r = [0u64; NL];
        for i in 0..n {
            r[i] = u[i] >> s;
            if s > 0 && i + 1 < 2 * NL + 1 {
                r[i] |= u[i + 1] << (64 - s);
            }
        }
        if s > 0 && n < NL {
            // the bits shifted in from u[n] belong to limb n-1 only; clear spill
            // (u[n] is zero after the division, so nothing to clear)
        }
        U(r)
    }
    pub fn reduce(&self, x: &U) -> U {
        if *x < self.q {
            return *x;
        }
        let mut w = [0u64; 2 * NL];
        w[..NL].copy_from_slice(&x.0);
        self.reduce_wide(&w)
    }
    pub fn add(&self, a: &U, b: &U) -> U {
        let (s, c) = a.adc(b);
        debug_assert!(!c);
        if s >= self.q { s.sbb(&self.q).0 } else { s }
    }
    pub fn sub(&self, a: &U, b: &U) -> U {
        let (d, br) = a.sbb(b);
        if br { d.adc(&self.q).0 } else { d }
    }
    pub fn neg(&self, a: &U) -> U {
        if a.is_zero() { *a } else { self.q.sbb(a).0 }
    }
    pub fn mul(&self, a: &U, b: &U) -> U {
        let mut w = [0u64; 2 * NL];
        for i in 0..NL {
            if a.0[i] == 0 {
                continue;
            }
            let mut c: u128 = 0;
            for j in 0..NL {
                let t = a.0[i] as u128 * b.0[j] as u128 + w[i + j] as u128 + c;
                w[i + j] = t as u64;
                c = t >> 64;
            }
            w[i + NL] = c as u64;
        }
        self.reduce_wide(&w)
    }
    pub fn pow(&self, a: &U, e: &U) -> U {
        let mut r = U::ONE;
        let nb = e.bits();
        for i in (0..nb).rev() {
            r = self.mul(&r, &r);
            if e.bit(i) {
                r = self.mul(&r, a);
            }
        }
        r
    }
    /// inverse by Fermat (q prime); None for zero
    pub fn inv(&self, a: &U) -> Option<U> {
        if a.is_zero() {
            return None;
        }
        let e = self.q.sbb(&U::from_u64(2)).0;
        let r = self.pow(a, &e);
        debug_assert!(self.mul(&r, a) == U::ONE);
        Some(r)
    }
    /// Miller-Rabin with fixed bases (recorded in evidence as the primality witness of q)
    pub fn is_probable_prime(&self) -> bool {
        let q = self.q;
        if q.0[0] & 1 == 0 {
            return false;
        }
        let qm1 = q.sbb(&U::ONE).0;
        let mut d = qm1;
        let mut r = 0;
        while d.0[0] & 1 == 0 {
            // d >>= 1
            for i in 0..NL {
                d.0[i] >>= 1;
                if i + 1 < NL {
                    d.0[i] |= d.0[i + 1] << 63;
                }
            }
            r += 1;
        }
        'outer: for base in [2u64, 3, 5, 7, 11, 13, 17, 19, 23, 29, 31, 37] {
            let mut x = self.pow(&U::from_u64(base), &d);
            if x == U::ONE || x == qm1 {
                continue;
            }
            for _ in 0..r - 1 {
                x = self.mul(&x, &x);
                if x == qm1 {
                    continue 'outer;
                }
            }
            return false;
        }
        true
    }
}

/// Wide signed integer (two's complement, little-endian limbs).
pub const BL: usize = 36; // 2304 bits
#[derive(Clone, Copy, PartialEq, Eq, Debug)]
pub struct Big(pub [u64; BL]);

impl Big {
    pub const ZERO: Big = Big([0; BL]);
    pub fn small(v: i64) -> Big {
        let fill = if v < 0 { u64::MAX } else { 0 };
        let mut r = [fill; BL];
        r[0] = v as u64;
        Big(r)
    }
    pub fn is_zero(&self) -> bool {
        self.0.iter().all(|x| *x == 0)
    }
    pub fn is_neg(&self) -> bool {
        self.0[BL - 1] >> 63 == 1
    }
    pub fn add(&self, o: &Big) -> Big {
        let mut r = [0u64; BL];
        let mut c = 0u128;
        for i in 0..BL {
            let s = self.0[i] as u128 + o.0[i] as u128 + c;
            r[i] = s as u64;
            c = s >> 64;
        }
        let res = Big(r);
        // overflow check: operands of equal sign must give that sign
        assert!(
            self.is_neg() != o.is_neg() || res.is_neg() == self.is_neg(),
            "Big overflow"
        );
        res
    }
    pub fn neg(&self) -> Big {
        let mut r = [0u64; BL];
        let mut c = 1u128;
        for i in 0..BL {
            let s = (!self.0[i]) as u128 + c;
            r[i] = s as u64;
            c = s >> 64;
        }
        Big(r)
    }
    pub fn sub(&self, o: &Big) -> Big {
        self.add(&o.neg())
    }
    /// true iff the value fits in the low `bits` bits as a signed number
    pub fn fits_signed(&self, bits: usize) -> bool {
        let neg = self.is_neg();
        for i in (bits - 1)..(BL * 64) {
            let b = (self.0[i / 64] >> (i % 64)) & 1 == 1;
            if b != neg {
                return false;
            }
        }
        true
    }
    /// arithmetic shift right by `k` bits
    pub fn shr(&self, k: usize) -> Big {
        let fill = if self.is_neg() { u64::MAX } else { 0 };
        let mut r = [fill; BL];
        let (ls, bs) = (k / 64, k % 64);
        for i in 0..BL {
            let lo = if i + ls < BL { self.0[i + ls] } else { fill };
            let hi = if i + ls + 1 < BL { self.0[i + ls + 1] } else { fill };
            r[i] = if bs == 0 { lo } else { (lo >> bs) | (hi << (64 - bs)) };
        }
        Big(r)
    }
    /// low `bits` bits interpreted as a balanced signed number in [-2^(bits-1), 2^(bits-1));
    /// returns (digit as Big truncated to low bits sign-extended, remaining = (self - digit) >> bits)
    pub fn split_low_signed(&self, bits: usize) -> (Big, Big) {
        // digit = sign-extend(low bits)
        let mut d = [0u64; BL];
        let top = (self.0[(bits - 1) / 64] >> ((bits - 1) % 64)) & 1 == 1;
        for i in 0..BL {
            let lo_bit = i * 64;
            if lo_bit + 64 <= bits {
                d[i] = self.0[i];
            } else if lo_bit >= bits {
                d[i] = if top { u64::MAX } else { 0 };
            } else {
                let k = bits - lo_bit;
                let mask = (1u64 << k) - 1;
                d[i] = (self.0[i] & mask) | if top { !mask } else { 0 };
            }
        }
        let d = Big(d);
        let rest = self.sub(&d).shr(bits);
        (d, rest)
    }
    /// |self| as U (must fit) and sign
    pub fn to_sign_mag(&self) -> (bool, U) {
        let neg = self.is_neg();
        let m = if neg { self.neg() } else { *self };
        for i in NL..BL {
            assert!(m.0[i] == 0, "Big does not fit U");
        }
        let mut r = [0u64; NL];
        r.copy_from_slice(&m.0[..NL]);
        (neg, U(r))
    }
    pub fn to_i64(&self) -> Option<i64> {
        if self.fits_signed(64) { Some(self.0[0] as i64) } else { None }
    }
}

#[cfg(test)]
mod tests {
    use super::*;
    #[test]
    fn knuth_matches_shift_subtract() {
        let qs = [
            "1000000000000000000000000000000014def9dea2f79cd65812631a5cf5d3ed",
            "fffffffffffffffffffffffffffffffebaaedce6af48a03bbfd25e8cd0364141",
            "ffffffff00000000ffffffffffffffffbce6faada7179e84f3b9cac2fc632551",
            "3fffffffffffffffffffffffffffffffffffffffffffffffffffffff7cca23e9c44edb49aed63690216cc2728dc58f552378c292ab5844f3",
        ];
        let mut st = 0x1234_5678_9abc_def0u64;
        let mut next = || {
            st ^= st << 13;
            st ^= st >> 7;
            st ^= st << 17;
            st
        };
        for qh in qs {
            let m = Modulus::new(U::from_hex(qh));
            assert!(m.is_probable_prime());
            for _ in 0..200 {
                let mut w = [0u64; 2 * NL];
                for x in w.iter_mut() {
                    *x = next();
                }
                let r = m.reduce_wide(&w);
                // reference: bitwise
                let mut acc = U::ZERO;
                for i in (0..2 * NL * 64).rev() {
                    let (d, c) = acc.adc(&acc);
                    acc = d;
                    let mut over = c;
                    if (w[i / 64] >> (i % 64)) & 1 == 1 {
                        let (d2, c2) = acc.adc(&U::ONE);
                        acc = d2;
                        over |= c2;
                    }
                    if over || acc >= m.q {
                        acc = acc.sbb(&m.q).0;
                    }
                }
                assert_eq!(r, acc);
            }
            let a = m.reduce(&U([next(), next(), next(), next(), 0, 0, 0, 0]));
            let ai = m.inv(&a).unwrap();
            assert_eq!(m.mul(&a, &ai), U::ONE);
            assert_eq!(U::from_dec(&a.to_dec()), a);
            assert_eq!(U::from_hex(&a.to_hex()), a);
        }
    }
    #[test]
    fn big_ops() {
        let a = Big::small(-5);
        let b = Big::small(7);
        assert_eq!(a.add(&b), Big::small(2));
        assert_eq!(a.neg(), Big::small(5));
        let (d, r) = Big::small(-3).split_low_signed(8);
        assert_eq!(d, Big::small(-3));
        assert!(r.is_zero());
        let (d, r) = Big::small(0x1ff).split_low_signed(8);
        assert_eq!(d, Big::small(-1));
        assert_eq!(r, Big::small(2));
    }
}
