//! Byte-level view of symbolic values: injective 32-byte blocks, positional scalar
//! encodings, uninterpreted hash functions over parsed preimages, the logging RNG.
use crate::bn::U;
use crate::ctx::{with, Ctx, Node, Piece, UfSig, S};
use crate::elem::{CONST_BYTES, E, SLEN, SLOTS};

pub const TAG_S: u8 = 0xA5; // scalar term
pub const TAG_E: u8 = 0xE1; // element (discrete-log term)
pub const TAG_H: u8 = 0xB7; // hash output bytes
pub const TAG_R: u8 = 0xC3; // RNG output bytes
pub const TAG_M: u8 = 0xD2; // arbitrary message bytes
pub const TAG_X: u8 = 0xD4; // x-coordinate (secp256k1 stub)
const MAGIC: &[u8; 8] = b"SyMfRoSt";
const TAGS: [u8; 6] = [TAG_S, TAG_E, TAG_H, TAG_R, TAG_M, TAG_X];

pub fn block32(tag: u8, h: u32) -> [u8; 32] {
    let mut b = [0u8; 32];
    b[0] = tag;
    b[1..5].copy_from_slice(&h.to_be_bytes());
    b[5..9].copy_from_slice(&(!h).to_be_bytes());
    b[9..17].copy_from_slice(MAGIC);
    b[31] = tag;
    b
}
pub fn unblock32(b: &[u8]) -> Option<(u8, u32)> {
    if b.len() != 32 || b[0] != b[31] || !TAGS.contains(&b[0]) || &b[9..17] != MAGIC {
        return None;
    }
    if b[17..31].iter().any(|x| *x != 0) {
        return None;
    }
    let h = u32::from_be_bytes(b[1..5].try_into().unwrap());
    let nh = u32::from_be_bytes(b[5..9].try_into().unwrap());
    if nh != !h {
        return None;
    }
    let ok = with(|c| (h as usize) < c.nodes.len());
    if ok { Some((b[0], h)) } else { None }
}

impl Ctx {
    /// representative of a term among all terms serialised so far (valid-equal ⇒ same handle)
    pub fn repr(&mut self, t: u32) -> u32 {
        if self.const_of(t).is_some() {
            return t;
        }
        let fp = self.fingerprint(t);
        let cands: Vec<u32> = self.reprs.get(&fp).cloned().unwrap_or_default();
        for u in cands {
            if u == t {
                return t;
            }
            if self.fingerprint(u) == fp && self.z3_valid_eq(t, u, self.cfg.branch_timeout_ms) == Some(true) {
                return u;
            }
        }
        self.reprs.entry(fp).or_default().push(t);
        t
    }

    /// apply an uninterpreted function; reuses an earlier application whose arguments are
    /// valid-equal (functional consistency is enforced here, the solver sees one constant
    /// per distinct application)
    pub fn uf_apply(&mut self, sig: UfSig, args: Vec<u32>) -> u32 {
        let sid = if let Some(i) = self.sig_index.get(&sig) {
            *i
        } else {
            let i = self.sigs.len() as u32;
            self.sigs.push(sig.clone());
            self.sig_index.insert(sig, i);
            i
        };
        let exact = Node::Uf(sid, args.clone());
        if let Some(i) = self.index.get(&exact) {
            return *i;
        }
        let prev: Vec<u32> = self.uf_apps.get(&sid).cloned().unwrap_or_default();
        'cand: for p in prev {
            let Node::Uf(_, pargs) = self.nodes[p as usize].clone() else { continue };
            for (x, y) in args.iter().zip(pargs.iter()) {
                if x != y && self.differs_in_some_world(*x, *y) {
                    continue 'cand;
                }
            }
            for (x, y) in args.iter().zip(pargs.iter()) {
                if x != y && self.z3_valid_eq(*x, *y, self.cfg.branch_timeout_ms) != Some(true) {
                    continue 'cand;
                }
            }
            return p;
        }
        let n = self.intern(exact);
        self.uf_apps.entry(sid).or_default().push(n);
        self.stats.uf_apps += 1;
        self.hash_log.push(n);
        n
    }

    pub fn uf_bytes(&mut self, name: &str, m: &[u8]) -> u32 {
        let (shape, args) = self.parse_pieces(m);
        let node = self.uf_apply(UfSig { name: name.to_string(), shape }, args);
        if self.cfg.dense {
            let v = self.dense_value(node);
            return self.cst(v);
        }
        node
    }

    /// dense mode: the constant standing for an atom (hash output or random draw). Pseudo-random
    /// (the atom's world-0 value) or, with `dense_pattern`, one of a list of structured bit patterns
    /// chosen to stress the NAF recoding: runs of ones across 64-bit limb boundaries, every 5-bit
    /// window equal to 15 / 17 / 31, zero and 0xFF top bytes, tiny values, q-1.
    pub fn dense_value(&mut self, atom: u32) -> U {
        if let Some(v) = self.dense_consts.get(&atom) {
            return *v;
        }
        let v = match self.cfg.dense_pattern {
            None => self.eval(0, atom),
            Some(off) => {
                let k = (off as usize + self.dense_consts.len()) % 18;
                let ones = |lo: usize, hi: usize| -> U {
                    let mut u = U::ZERO;
                    for i in lo..hi {
                        u.0[i / 64] |= 1u64 << (i % 64);
                    }
                    u
                };
                let or = |a: U, b: U| -> U {
                    let mut r = a;
                    for i in 0..crate::bn::NL {
                        r.0[i] |= b.0[i];
                    }
                    r
                };
                let every5 = |d: u64| -> U {
                    let mut u = U::ZERO;
                    let mut pos = 0;
                    while pos + 5 <= 250 {
                        for b in 0..5 {
                            if (d >> b) & 1 == 1 {
                                u.0[(pos + b) / 64] |= 1u64 << ((pos + b) % 64);
                            }
                        }
                        pos += 5;
                    }
                    u
                };
                let rnd = self.eval(0, atom);
                let raw = match k {
                    0 => ones(0, 252),
                    1 => self.m.q.sbb(&U::ONE).0,
                    2 => or(or(ones(59, 69), ones(123, 133)), ones(187, 197)),
                    3 => U([0x0F0F_0F0F_0F0F_0F0F, 0x0F0F_0F0F_0F0F_0F0F, 0x0F0F_0F0F_0F0F_0F0F, 0x000F_0F0F_0F0F_0F0F, 0, 0, 0, 0]),
                    4 => U([0xFFFF_0000_FFFF_0000, 0x0000_FFFF_0000_FFFF, 0xFFFF_0000_FFFF_0000, 0x0000_FFFF_0000_FFFF, 0, 0, 0, 0]),
                    5 => every5(15),
                    6 => every5(17),
                    7 => every5(31),
                    8 => every5(16),
                    9 => {
                        let mut u = rnd;
                        u.0[3] &= 0x0000_00FF_FFFF_FFFF; // top bytes zero
                        for i in 4..crate::bn::NL {
                            u.0[i] = 0;
                        }
                        u
                    }
                    // low limb with its top window set (a NAF carry is certain), then two all-zero limbs
                    10 => or(ones(244, 252), U([rnd.0[0] | 0xF800_0000_0000_0000, 0, 0, 0, 0, 0, 0, 0])),
                    11 => U::ONE,
                    12 => U::from_u64(16),
                    13 => U::from_u64(31),
                    14 => or(ones(63, 65), ones(127, 129)),
                    15 => ones(60, 64),
                    16 => or(ones(0, 1), ones(251, 252)),
                    // 2^64 - 1: the carry out of the low limb lands on an all-zero limb
                    _ => ones(0, 64),
                };
                self.m.reduce(&raw)
            }
        };
        self.dense_consts.insert(atom, v);
        v
    }

    /// split a byte string into literal chunks and embedded symbolic blocks
    pub fn parse_pieces(&mut self, m: &[u8]) -> (Vec<Piece>, Vec<u32>) {
        let mut shape: Vec<Piece> = vec![];
        let mut args: Vec<u32> = vec![];
        let mut raw: Vec<u8> = vec![];
        let mut i = 0;
        while i < m.len() {
            if i + 32 <= m.len() && m[i] == m[i + 31] && TAGS.contains(&m[i]) && &m[i + 9..i + 17] == MAGIC {
                let h = u32::from_be_bytes(m[i + 1..i + 5].try_into().unwrap());
                let nh = u32::from_be_bytes(m[i + 5..i + 9].try_into().unwrap());
                if nh == !h && (h as usize) < self.nodes.len() && m[i + 17..i + 31].iter().all(|x| *x == 0) {
                    if !raw.is_empty() {
                        shape.push(Piece::Lit(core::mem::take(&mut raw)));
                    }
                    shape.push(Piece::Term(m[i]));
                    args.push(h);
                    i += 32;
                    continue;
                }
            }
            if self.cfg.layout.global_slots && i + 32 <= m.len() {
                // one-hot 32-byte scalar (secp256k1 stub layout)
                let w = &m[i..i + 32];
                let nz: Vec<usize> = (0..32).filter(|j| w[*j] != 0).collect();
                if nz.len() == 1 && w[nz[0]].count_ones() == 1 {
                    let p = (31 - nz[0]) * 8 + w[nz[0]].trailing_zeros() as usize;
                    if p >= 64 && (p - 64) % 4 == 0 {
                        if let Some(h) = self.slot_gens[0].get((p - 64) / 4).copied() {
                            if !raw.is_empty() {
                                shape.push(Piece::Lit(core::mem::take(&mut raw)));
                            }
                            shape.push(Piece::Term(TAG_S));
                            args.push(h);
                            i += 32;
                            continue;
                        }
                    }
                }
            }
            raw.push(m[i]);
            i += 1;
        }
        if !raw.is_empty() {
            shape.push(Piece::Lit(raw));
        }
        (shape, args)
    }

    pub fn rng_draw(&mut self, len: usize) -> Vec<u8> {
        let k = self.rng_log.len();
        let v = self.var(&format!("rng#{k}"));
        self.rng_log.push((len, v));
        let mut out = vec![0u8; len];
        if self.cfg.dense {
            // pseudo-random constant bytes (world-0 values of the chunk variables)
            for (j, ch) in out.chunks_mut(32).enumerate() {
                let vj = if j == 0 { v } else { self.var(&format!("rng#{k}.{j}")) };
                let val = self.dense_value(vj);
                let b = val.to_le_bytes();
                let n = ch.len();
                ch.copy_from_slice(&b[..n]);
            }
            return out;
        }
        if len < 32 {
            self.fail("rng", format!("request of {len} bytes is shorter than a symbolic block"), true);
            return out;
        }
        // every 32-byte chunk of the answer is its own fresh symbolic block
        for (j, ch) in out.chunks_mut(32).enumerate() {
            if ch.len() < 32 {
                break; // a trailing partial chunk stays zero (no caller in scope asks for one)
            }
            let vj = if j == 0 { v } else { self.var(&format!("rng#{k}.{j}")) };
            ch.copy_from_slice(&block32(TAG_R, vj));
        }
        out
    }
}

/// canonical (and, for constants, also little-endian) encoding of a scalar
pub fn scalar_serialize(s: S) -> [u8; SLEN] {
    with(|c| {
        let mut b = [0u8; SLEN];
        if c.ser_log_on {
            c.ser_log.push(('s', s.0));
        }
        match c.const_of(s.0) {
            Some(v) => b[..CONST_BYTES].copy_from_slice(&v.to_le_bytes()),
            None => {
                let r = c.repr(s.0);
                b[..32].copy_from_slice(&block32(TAG_S, r));
            }
        }
        b
    })
}
/// positional little-endian view: symbolic scalar in slot k reads as 2^(8*(CONST_BYTES+k))
pub fn scalar_le_positional(s: S) -> [u8; SLEN] {
    with(|c| {
        let mut b = [0u8; SLEN];
        if c.ser_log_on {
            c.ser_log.push(('l', s.0));
        }
        match c.const_of(s.0) {
            Some(v) => b[..CONST_BYTES].copy_from_slice(&v.to_le_bytes()),
            None => {
                c.epoch += 1;
                let k = c.slot_of(s.0);
                debug_assert!(k < SLOTS);
                b[CONST_BYTES + k] = 1;
            }
        }
        b
    })
}
pub fn scalar_deserialize(b: &[u8; SLEN]) -> Option<S> {
    if let Some((TAG_S, h)) = unblock32(&b[..32]) {
        if b[32..].iter().all(|x| *x == 0) {
            return Some(S(h));
        }
        return None;
    }
    if b[CONST_BYTES..].iter().any(|x| *x != 0) {
        return None;
    }
    let v = U::from_le_bytes(&b[..CONST_BYTES]);
    with(|c| if v < c.m.q { Some(S(c.cst(v))) } else { None })
}

pub fn element_serialize(e: E) -> [u8; 32] {
    let d = e.dlog();
    with(|c| {
        let r = c.repr(d.0);
        block32(TAG_E, r)
    })
}
pub fn element_deserialize(b: &[u8; 32]) -> Option<E> {
    match unblock32(b) {
        Some((TAG_E, h)) => Some(E::from_dlog(S(h))),
        _ => None,
    }
}

pub fn uf(name: &str, m: &[u8]) -> S {
    S(with(|c| c.uf_bytes(name, m)))
}
/// hash with byte output
pub fn uf_block(name: &str, m: &[u8]) -> [u8; 32] {
    let n = with(|c| {
        let mut shape_name = name.to_string();
        shape_name.push_str("/bytes");
        // byte-valued hashes never go through dense mode's constant folding
        let dense = c.cfg.dense;
        c.cfg.dense = false;
        let n = c.uf_bytes(&shape_name, m);
        c.cfg.dense = dense;
        n
    });
    block32(TAG_H, n)
}
pub fn msg_block(name: &str) -> [u8; 32] {
    let v = S::var(name);
    block32(TAG_M, v.0)
}
pub fn rng_draw(len: usize) -> Vec<u8> {
    with(|c| c.rng_draw(len))
}
