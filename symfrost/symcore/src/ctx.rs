//! Term arena, path condition, decisions, proof obligations.
use crate::bn::{Modulus, U};
use crate::elem::ElemEntry;
use crate::smt::Z3;
use crate::world::World;
use std::cell::RefCell;
use std::collections::{BTreeSet, HashMap};
use std::rc::Rc;
use std::time::Instant;

#[derive(Clone, Debug, PartialEq, Eq, Hash)]
pub enum Node {
    Const(U),
    Var(u32),
    Add(u32, u32),
    Sub(u32, u32),
    Mul(u32, u32),
    /// application of an uninterpreted function: signature id, term arguments
    Uf(u32, Vec<u32>),
}

/// one piece of a hash preimage
#[derive(Clone, Debug, PartialEq, Eq, Hash)]
pub enum Piece {
    Lit(Vec<u8>),
    /// a symbolic block of the given tag (the term is in the `Uf` node's args, in order)
    Term(u8),
}
#[derive(Clone, Debug, PartialEq, Eq, Hash)]
pub struct UfSig {
    pub name: String,
    pub shape: Vec<Piece>,
}

#[derive(Copy, Clone, Debug, PartialEq, Eq)]
pub enum Policy {
    /// every undetermined equality is assumed false ("generic position") and logged
    Assume,
    /// every undetermined equality forks (decision script)
    Fork,
    /// zero-tests (one side is the constant 0) are assumed false, everything else forks
    ForkNonZero,
    /// comparisons that involve an adversarially chosen value fork, all others are assumed false
    ForkAdv,
}

#[derive(Clone, Debug)]
pub enum Lit {
    Eq(u32, u32),
    Ne(u32, u32),
}

#[derive(Clone, Debug, PartialEq, Eq)]
pub enum Outcome {
    Valid,
    Infeasible,
    Forked(bool),
    AssumedNe,
    /// the disequality was already a literal of the path condition (assumed or derived earlier)
    KnownNe,
}
#[derive(Clone, Debug)]
pub struct Decision {
    pub a: u32,
    pub b: u32,
    pub outcome: Outcome,
    pub label: String,
}

#[derive(Clone, Debug)]
pub struct Obligation {
    pub rule: &'static str,
    pub label: String,
    pub ok: bool,
    pub detail: String,
}

#[derive(Clone, Debug)]
pub struct Failure {
    pub label: String,
    pub detail: String,
    /// world-0 values of every named variable (hex), for replay
    pub model: Vec<(String, String)>,
    /// true when the failure is an engine problem (solver unknown, undecodable…), not a property violation
    pub inconclusive: bool,
}

#[derive(Clone, Debug, Default)]
pub struct Stats {
    pub z3_queries: u64,
    pub z3_unsat: u64,
    pub z3_sat: u64,
    pub z3_unknown: u64,
    pub z3_ms: f64,
    pub decisions_valid: u64,
    pub decisions_infeasible: u64,
    pub forks: u64,
    pub assumed: u64,
    pub obligations: u64,
    pub discharged: u64,
    pub by_rule: HashMap<&'static str, u64>,
    pub uf_apps: u64,
    pub nodes: u64,
    pub worlds_confirmed: u64,
    pub naf_calls: u64,
    pub normalized_fallbacks: u64,
    pub cross_checked: u64,
    pub cross_agree: u64,
    pub cross_unknown: u64,
    pub cross_disagree: u64,
}

/// bit layout of the positional (little-endian) view of symbolic scalars
#[derive(Clone, Copy, Debug)]
pub struct Layout {
    /// constants occupy the low `const_bits` bits
    pub const_bits: usize,
    /// one digit of `digit_bits` bits per slot above that
    pub digit_bits: usize,
    pub max_slots: usize,
    /// true: slots are never recycled (the canonical wire encoding is the positional one)
    pub global_slots: bool,
}
pub const LAYOUT_WIDE: Layout = Layout { const_bits: 512, digit_bits: 8, max_slots: 192, global_slots: false };
/// 32-byte scalars of the secp256k1 stubs: 2^(64+4k)
pub const LAYOUT_K256: Layout = Layout { const_bits: 64, digit_bits: 4, max_slots: 48, global_slots: true };

#[derive(Clone, Debug)]
pub struct RunCfg {
    pub order: String,
    pub script: Vec<bool>,
    pub seed: u64,
    pub policy: Policy,
    /// dense-constant mode: RNG and hashes return full-width pseudo-random constants
    pub dense: bool,
    pub branch_timeout_ms: u32,
    pub final_timeout_ms: u32,
    pub n_worlds: usize,
    pub layout: Layout,
    /// re-discharge every final obligation of a path with a second solver (thorough tier)
    pub cross_check: bool,
    /// dense mode: Some(k) = structured bit patterns (rotated by k) instead of pseudo-random constants
    pub dense_pattern: Option<u64>,
}
impl Default for RunCfg {
    fn default() -> Self {
        RunCfg {
            order: "ed25519".into(),
            script: vec![],
            seed: 1,
            policy: Policy::Assume,
            dense: false,
            branch_timeout_ms: 3000,
            final_timeout_ms: 10000,
            n_worlds: 2,
            layout: LAYOUT_WIDE,
            cross_check: false,
            dense_pattern: None,
        }
    }
}

pub struct Ctx {
    pub cfg: RunCfg,
    pub m: Modulus,
    pub nodes: Vec<Node>,
    pub index: HashMap<Node, u32>,
    pub var_names: Vec<String>,
    pub var_index: HashMap<String, u32>,
    pub sigs: Vec<UfSig>,
    pub sig_index: HashMap<UfSig, u32>,
    pub uf_apps: HashMap<u32, Vec<u32>>,
    pub elems: Vec<ElemEntry>,
    pub slot_gens: Vec<Vec<u32>>,
    pub pc: Vec<Lit>,
    pub policy: Policy,
    pub taken: Vec<bool>,
    pub decisions: Vec<Decision>,
    pub assumptions: Vec<String>,
    pub labels: Vec<String>,
    pub worlds: Vec<World>,
    pub pivots: Vec<u32>,
    pub equations: Vec<u32>,
    pub preferred_pivots: Vec<u32>,
    /// when set, only these atoms may be chosen as pivots (counter-strategy search)
    pub pivot_filter: Option<Vec<u32>>,
    /// disequalities of the path condition that counter-strategy searches may violate: the very
    /// comparison whose generic failure is being justified
    pub ne_ignore: Vec<(u32, u32)>,
    pub z3: Option<Z3>,
    pub obligations: Vec<Obligation>,
    pub failures: Vec<Failure>,
    pub stats: Stats,
    pub rng_log: Vec<(usize, u32)>,
    pub hash_log: Vec<u32>,
    pub ser_log: Vec<(char, u32)>,
    pub ser_log_on: bool,
    pub parity: Vec<(u32, bool)>,
    pub xreps: Vec<u32>,
    pub sample_smt: Vec<String>,
    pub support_cache: HashMap<u32, Rc<BTreeSet<u32>>>,
    pub subst_fuel: u64,
    pub fresh_ctr: u32,
    pub reprs: HashMap<Vec<U>, Vec<u32>>,
    pub dense_ctr: u64,
    pub adv_atoms: Vec<u32>,
    /// adversarial atoms created with a list of named candidate values (replay hint: which
    /// candidate, if any, the atom coincides with on the path)
    pub adv_candidates: Vec<(String, u32, Vec<u32>)>,
    /// incremented whenever a symbolic scalar is given its positional encoding (= a NAF is being computed)
    pub epoch: u64,
    pub in_obligation: bool,
    pub cross_defs: String,
    pub cross_queries: Vec<(String, bool)>,
    pub dense_consts: HashMap<u32, U>,
}

thread_local! {
    static CTX: RefCell<Option<Box<Ctx>>> = const { RefCell::new(None) };
}

pub fn with<R>(f: impl FnOnce(&mut Ctx) -> R) -> R {
    CTX.with(|c| {
        let mut b = c.borrow_mut();
        f(b.as_mut().expect("symcore context not initialised: call reset()"))
    })
}

/// Start a new symbolic run (one path). Reuses the solver process of the previous run.
pub fn reset(cfg: RunCfg) {
    CTX.with(|c| {
        let mut b = c.borrow_mut();
        let z3 = b.as_mut().and_then(|old| old.z3.take());
        let m = Modulus::new(U::from_hex(crate::order_hex(&cfg.order)));
        let mut ctx = Box::new(Ctx {
            m,
            nodes: vec![],
            index: HashMap::new(),
            var_names: vec![],
            var_index: HashMap::new(),
            sigs: vec![],
            sig_index: HashMap::new(),
            uf_apps: HashMap::new(),
            elems: vec![],
            slot_gens: vec![vec![]],
            pc: vec![],
            policy: cfg.policy,
            taken: vec![],
            decisions: vec![],
            assumptions: vec![],
            labels: vec![],
            worlds: vec![],
            pivots: vec![],
            equations: vec![],
            preferred_pivots: vec![],
            pivot_filter: None,
            ne_ignore: vec![],
            z3,
            obligations: vec![],
            failures: vec![],
            stats: Stats::default(),
            rng_log: vec![],
            hash_log: vec![],
            ser_log: vec![],
            ser_log_on: false,
            parity: vec![],
            xreps: vec![],
            sample_smt: vec![],
            support_cache: HashMap::new(),
            subst_fuel: 0,
            fresh_ctr: 0,
            reprs: HashMap::new(),
            dense_ctr: 0,
            adv_atoms: vec![],
            adv_candidates: vec![],
            epoch: 0,
            in_obligation: false,
            cross_defs: String::new(),
            cross_queries: vec![],
            dense_consts: HashMap::new(),
            cfg,
        });
        for w in 0..ctx.cfg.n_worlds {
            let seed = ctx.cfg.seed.wrapping_mul(0x9E37_79B9_7F4A_7C15).wrapping_add(w as u64 + 1);
            ctx.worlds.push(World::new(seed));
        }
        // fixed handles: 0 -> Const 0, 1 -> Const 1
        ctx.intern(Node::Const(U::ZERO));
        ctx.intern(Node::Const(U::ONE));
        ctx.init_elems();
        if let Some(z) = ctx.z3.as_mut() {
            z.reset_session();
        }
        *b = Some(ctx);
    });
}

/// Drop the context (and kill the solver).
pub fn shutdown() {
    CTX.with(|c| {
        *c.borrow_mut() = None;
    });
}

impl Ctx {
    pub fn intern(&mut self, n: Node) -> u32 {
        if let Some(i) = self.index.get(&n) {
            return *i;
        }
        let i = self.nodes.len() as u32;
        self.nodes.push(n.clone());
        self.index.insert(n, i);
        i
    }
    pub fn cst(&mut self, v: U) -> u32 {
        let v = self.m.reduce(&v);
        self.intern(Node::Const(v))
    }
    pub fn const_of(&self, t: u32) -> Option<U> {
        if let Node::Const(v) = &self.nodes[t as usize] { Some(*v) } else { None }
    }
    pub fn var(&mut self, name: &str) -> u32 {
        let vi = if let Some(i) = self.var_index.get(name) {
            *i
        } else {
            let i = self.var_names.len() as u32;
            self.var_names.push(name.to_string());
            self.var_index.insert(name.to_string(), i);
            i
        };
        self.intern(Node::Var(vi))
    }
    pub fn fresh(&mut self, prefix: &str) -> u32 {
        self.fresh_ctr += 1;
        let name = format!("{prefix}#{}", self.fresh_ctr);
        self.var(&name)
    }
    pub fn add(&mut self, a: u32, b: u32) -> u32 {
        match (self.const_of(a), self.const_of(b)) {
            (Some(x), Some(y)) => {
                let v = self.m.add(&x, &y);
                self.intern(Node::Const(v))
            }
            (Some(x), _) if x.is_zero() => b,
            (_, Some(y)) if y.is_zero() => a,
            _ => self.intern(Node::Add(a, b)),
        }
    }
    pub fn sub(&mut self, a: u32, b: u32) -> u32 {
        if a == b {
            return 0;
        }
        match (self.const_of(a), self.const_of(b)) {
            (Some(x), Some(y)) => {
                let v = self.m.sub(&x, &y);
                self.intern(Node::Const(v))
            }
            (_, Some(y)) if y.is_zero() => a,
            _ => self.intern(Node::Sub(a, b)),
        }
    }
    pub fn mul(&mut self, a: u32, b: u32) -> u32 {
        match (self.const_of(a), self.const_of(b)) {
            (Some(x), Some(y)) => {
                let v = self.m.mul(&x, &y);
                self.intern(Node::Const(v))
            }
            (Some(x), _) if x.is_zero() => 0,
            (_, Some(y)) if y.is_zero() => 0,
            (Some(x), _) if x == U::ONE => b,
            (_, Some(y)) if y == U::ONE => a,
            _ => self.intern(Node::Mul(a, b)),
        }
    }
    pub fn label(&self) -> String {
        self.labels.join("/")
    }

    /// top-level atoms (Var and Uf nodes) a term is a polynomial in
    pub fn support(&mut self, t: u32) -> Rc<BTreeSet<u32>> {
        if let Some(s) = self.support_cache.get(&t) {
            return s.clone();
        }
        let s: Rc<BTreeSet<u32>> = match self.nodes[t as usize].clone() {
            Node::Const(_) => Rc::new(BTreeSet::new()),
            Node::Var(_) | Node::Uf(..) => Rc::new([t].into_iter().collect()),
            Node::Add(a, b) | Node::Sub(a, b) | Node::Mul(a, b) => {
                let sa = self.support(a);
                let sb = self.support(b);
                if sb.is_subset(&sa) {
                    sa
                } else if sa.is_subset(&sb) {
                    sb
                } else {
                    Rc::new(sa.union(&sb).copied().collect())
                }
            }
        };
        self.support_cache.insert(t, s.clone());
        s
    }
    /// all atoms reachable, also through hash arguments
    pub fn deep_support(&mut self, t: u32) -> BTreeSet<u32> {
        let mut out = BTreeSet::new();
        let mut stack = vec![t];
        let mut seen = BTreeSet::new();
        while let Some(x) = stack.pop() {
            if !seen.insert(x) {
                continue;
            }
            for a in self.support(x).iter() {
                if out.insert(*a) {
                    if let Node::Uf(_, args) = self.nodes[*a as usize].clone() {
                        stack.extend(args);
                    }
                }
            }
        }
        out
    }
    /// replace every occurrence of atom `from` by term `to`, also inside hash arguments
    pub fn subst(&mut self, t: u32, from: u32, to: u32) -> u32 {
        let mut memo = HashMap::new();
        self.subst_rec(t, from, to, &mut memo)
    }
    fn subst_rec(&mut self, t: u32, from: u32, to: u32, memo: &mut HashMap<u32, u32>) -> u32 {
        if t == from {
            return to;
        }
        if let Some(r) = memo.get(&t) {
            return *r;
        }
        let r = match self.nodes[t as usize].clone() {
            Node::Const(_) | Node::Var(_) => t,
            Node::Add(a, b) => {
                let (x, y) = (self.subst_rec(a, from, to, memo), self.subst_rec(b, from, to, memo));
                if x == a && y == b { t } else { self.add(x, y) }
            }
            Node::Sub(a, b) => {
                let (x, y) = (self.subst_rec(a, from, to, memo), self.subst_rec(b, from, to, memo));
                if x == a && y == b { t } else { self.sub(x, y) }
            }
            Node::Mul(a, b) => {
                let (x, y) = (self.subst_rec(a, from, to, memo), self.subst_rec(b, from, to, memo));
                if x == a && y == b { t } else { self.mul(x, y) }
            }
            Node::Uf(sig, args) => {
                let na: Vec<u32> = args.iter().map(|a| self.subst_rec(*a, from, to, memo)).collect();
                if na == args { t } else { self.intern(Node::Uf(sig, na)) }
            }
        };
        memo.insert(t, r);
        r
    }

    pub fn describe(&self, t: u32, depth: usize) -> String {
        match &self.nodes[t as usize] {
            Node::Const(v) => {
                if v.bits() <= 64 { format!("{}", v.0[0]) } else { format!("0x{}", v.to_hex()) }
            }
            Node::Var(i) => self.var_names[*i as usize].clone(),
            Node::Uf(s, args) => {
                if depth == 0 {
                    format!("{}(..)#{t}", self.sigs[*s as usize].name)
                } else {
                    format!(
                        "{}({})",
                        self.sigs[*s as usize].name,
                        args.iter().map(|a| self.describe(*a, depth - 1)).collect::<Vec<_>>().join(", ")
                    )
                }
            }
            Node::Add(a, b) | Node::Sub(a, b) | Node::Mul(a, b) => {
                if depth == 0 {
                    return format!("t{t}");
                }
                let op = match &self.nodes[t as usize] {
                    Node::Add(..) => "+",
                    Node::Sub(..) => "-",
                    _ => "*",
                };
                format!("({} {} {})", self.describe(*a, depth - 1), op, self.describe(*b, depth - 1))
            }
        }
    }

    pub fn is_zero_test(&self, a: u32, b: u32) -> bool {
        a == 0 || b == 0
    }

    /// world-0 model of all named variables
    pub fn model(&mut self) -> Vec<(String, String)> {
        let mut out = vec![];
        for vi in 0..self.var_names.len() as u32 {
            let n = self.intern(Node::Var(vi));
            let v = match self.dense_consts.get(&n) {
                Some(d) => *d,
                None => self.eval(0, n),
            };
            out.push((self.var_names[vi as usize].clone(), v.to_hex()));
        }
        for (t, p) in self.parity.clone() {
            out.push((format!("parity[{}]", self.describe(t, 2)), if p { "1".into() } else { "0".into() }));
        }
        // replay hint: an adversarial value that coincides with one of its declared candidates in
        // every model of the path is replayed as that candidate (whose concrete value the
        // scenario computes itself — hash outputs have no transferable model value)
        for (name, v, cands) in self.adv_candidates.clone() {
            let nw = self.cfg.n_worlds;
            let vv: Vec<U> = (0..nw).map(|w| self.eval(w, v)).collect();
            let cv: Vec<Vec<U>> = cands.iter().map(|c| (0..nw).map(|w| self.eval(w, *c)).collect()).collect();
            if let Some(k) = (0..cands.len()).find(|k| (0..nw).all(|w| vv[w] == cv[*k][w])) {
                out.push((format!("among:{name}"), format!("{k:x}")));
                continue;
            }
            // otherwise: a combination of the candidates with coefficients in {-1, 0, 1} (e.g. "the
            // honest value plus the error another participant removed"), found by search over the
            // worlds (a 256-bit coincidence in every world is not a false positive to worry about,
            // and the replay decides anyway)
            let k = cands.len().min(9);
            if k >= 2 {
                let total = 3usize.pow(k as u32);
                'combos: for code in 1..total {
                    let mut c = code;
                    let mut coef = [0i8; 9];
                    let mut nz = 0;
                    for slot in coef.iter_mut().take(k) {
                        *slot = (c % 3) as i8 - 1;
                        c /= 3;
                        nz += (*slot != 0) as usize;
                    }
                    if nz < 2 {
                        continue;
                    }
                    for w in 0..nw {
                        let mut acc = U::ZERO;
                        for j in 0..k {
                            if coef[j] == 1 {
                                acc = self.m.add(&acc, &cv[j][w]);
                            } else if coef[j] == -1 {
                                acc = self.m.sub(&acc, &cv[j][w]);
                            }
                        }
                        if acc != vv[w] {
                            continue 'combos;
                        }
                    }
                    out.push((format!("lin:{name}"), coef[..k].iter().map(|c| ((c + 1) as u8 + b'0') as char).collect()));
                    break;
                }
            }
        }
        out
    }

    pub fn fail(&mut self, label: &str, detail: String, inconclusive: bool) {
        let model = self.model();
        let label = format!("{}: {}", self.label(), label);
        self.failures.push(Failure { label, detail, model, inconclusive });
    }

    pub fn record(&mut self, rule: &'static str, label: &str, ok: bool, detail: String) {
        self.stats.obligations += 1;
        if ok {
            self.stats.discharged += 1;
        }
        *self.stats.by_rule.entry(rule).or_insert(0) += 1;
        let label = format!("{}: {}", self.label(), label);
        if self.obligations.len() < 4000 {
            self.obligations.push(Obligation { rule, label, ok, detail });
        }
    }

    // ------------------------------------------------------------------ decisions

    /// The semantics of `==` on symbolic scalars inside the code under test.
    pub fn decide_eq(&mut self, a: u32, b: u32) -> bool {
        if a == b {
            return true;
        }
        if let (Some(x), Some(y)) = (self.const_of(a), self.const_of(b)) {
            return x == y;
        }
        let label = self.label();
        for l in self.pc.iter() {
            match l {
                Lit::Ne(x, y) if (*x == a && *y == b) || (*x == b && *y == a) => {
                    self.decisions.push(Decision { a, b, outcome: Outcome::KnownNe, label });
                    return false;
                }
                Lit::Eq(x, y) if (*x == a && *y == b) || (*x == b && *y == a) => return true,
                _ => {}
            }
        }
        let differs = self.differs_in_some_world(a, b);
        if !differs {
            // candidate: valid under the path condition — the solver decides
            match self.z3_valid_eq(a, b, self.cfg.branch_timeout_ms) {
                Some(true) => {
                    self.stats.decisions_valid += 1;
                    self.decisions.push(Decision { a, b, outcome: Outcome::Valid, label });
                    return true;
                }
                other => {
                    let d = format!(
                        "worlds agree on {} == {} but the solver answered {:?}",
                        self.describe(a, 3),
                        self.describe(b, 3),
                        other
                    );
                    self.fail("decision inconclusive", d, true);
                    self.decisions.push(Decision { a, b, outcome: Outcome::Valid, label });
                    return true;
                }
            }
        }
        // not valid (some world is a counter-model). Is equality refuted outright (EX)?
        let d = self.sub(a, b);
        if self.refute_by_units(d, false).is_some() {
            self.stats.decisions_infeasible += 1;
            self.pc.push(Lit::Ne(a, b));
            self.decisions.push(Decision { a, b, outcome: Outcome::Infeasible, label });
            return false;
        }
        let zero_test = self.is_zero_test(a, b);
        let assume = match self.policy {
            Policy::Assume => true,
            Policy::Fork => false,
            Policy::ForkNonZero => zero_test,
            Policy::ForkAdv => {
                let ds = self.deep_support(d);
                !self.adv_atoms.iter().any(|a| ds.contains(a))
            }
        };
        if assume {
            self.stats.assumed += 1;
            let t = if a == 0 { b } else { a };
            let desc = if zero_test {
                format!("[{}] nonzero: {}", label, self.describe(t, 2))
            } else {
                format!("[{}] distinct: {} != {}", label, self.describe(a, 2), self.describe(b, 2))
            };
            self.assumptions.push(desc);
            self.pc.push(Lit::Ne(a, b));
            self.decisions.push(Decision { a, b, outcome: Outcome::AssumedNe, label });
            return false;
        }
        // fork candidate: try to extend the worlds with a == b
        let want = {
            let k = self.taken.len();
            if k < self.cfg.script.len() { Some(self.cfg.script[k]) } else { None }
        };
        let snapshot = self.snapshot_worlds();
        let feasible = self.try_add_equation(d);
        if !feasible {
            // No model of the equality over the free inputs: the two sides can only coincide
            // through a hash coincidence or one particular value of honest randomness. Treated as
            // a generic-position assumption (logged; `expect_reject` justifies it by rule GR).
            self.restore_worlds(snapshot);
            self.stats.assumed += 1;
            let desc = format!("[{}] distinct (no model over the free inputs): {} != {}", label, self.describe(a, 2), self.describe(b, 2));
            self.assumptions.push(desc);
            self.pc.push(Lit::Ne(a, b));
            self.decisions.push(Decision { a, b, outcome: Outcome::AssumedNe, label });
            return false;
        }
        // both branches feasible: fork
        self.stats.forks += 1;
        let take_eq = want.unwrap_or(false);
        self.taken.push(take_eq);
        if take_eq {
            self.pc.push(Lit::Eq(a, b));
        } else {
            self.restore_worlds(snapshot);
            self.pc.push(Lit::Ne(a, b));
        }
        self.decisions.push(Decision { a, b, outcome: Outcome::Forked(take_eq), label });
        take_eq
    }

    /// Add `a != b` to the path condition as a stated precondition (must be satisfiable).
    pub fn assume_ne(&mut self, a: u32, b: u32, why: &str) {
        if !self.differs_in_some_world(a, b) {
            self.fail("vacuous assumption", format!("assumed {why} but the worlds make both sides equal"), true);
        }
        self.assumptions.push(format!("[precondition] {why}"));
        self.pc.push(Lit::Ne(a, b));
    }
    /// Add `a == b` to the path condition as a stated precondition.
    pub fn assume_eq(&mut self, a: u32, b: u32, why: &str) {
        let d = self.sub(a, b);
        if !self.try_add_equation(d) {
            self.fail("vacuous assumption", format!("assumed {why} but no model was found"), true);
        }
        self.assumptions.push(format!("[precondition] {why}"));
        self.pc.push(Lit::Eq(a, b));
    }

    // ------------------------------------------------------------------ obligations

    /// (ID) PC ⇒ a ≡ b (mod q): the solver must answer unsat for the negation.
    pub fn prove_eq(&mut self, a: u32, b: u32, what: &str) -> bool {
        if a == b {
            self.record("ID", what, true, "syntactically identical".into());
            return true;
        }
        if self.differs_in_some_world(a, b) {
            let det = format!("counter-model: {} != {}", self.describe(a, 3), self.describe(b, 3));
            self.record("ID", what, false, det.clone());
            self.fail(what, det, false);
            return false;
        }
        self.in_obligation = true;
        let verdict = self.z3_valid_eq(a, b, self.cfg.final_timeout_ms);
        self.in_obligation = false;
        match verdict {
            Some(true) => {
                self.record("ID", what, true, String::new());
                true
            }
            other => {
                let det = format!("solver answered {:?} on a candidate-valid identity", other);
                self.record("ID", what, false, det.clone());
                self.fail(what, det, true);
                false
            }
        }
    }

    /// (EX) PC ⇒ a ≢ b: the residual is a constant unit multiple of (a product of at most
    /// two) quantities the path condition asserts non-zero; the solver proves that identity.
    pub fn prove_ne(&mut self, a: u32, b: u32, what: &str) -> bool {
        self.prove_ne_opt(a, b, what, true)
    }
    pub fn prove_ne_opt(&mut self, a: u32, b: u32, what: &str, last_resort: bool) -> bool {
        let r = self.sub(a, b);
        if let Some(c) = self.const_of(r) {
            let ok = !c.is_zero();
            self.record("EX", what, ok, format!("constant residual {}", c.to_hex()));
            if !ok {
                self.fail(what, "residual is identically zero".into(), false);
            }
            return ok;
        }
        if !self.differs_in_some_world(a, b) {
            let det = format!("residual {} vanishes in every world", self.describe(r, 3));
            self.record("EX", what, false, det.clone());
            self.fail(what, det, false);
            return false;
        }
        if let Some(det) = self.refute_by_units(r, true) {
            self.record("EX", what, true, det);
            return true;
        }
        if !last_resort {
            let det = format!("could not show {} ≢ 0 from the path condition", self.describe(r, 3));
            self.record("EX", what, false, det.clone());
            self.fail(what, det, false);
            return false;
        }
        // last resort: ask the solver directly
        match self.z3_sat_eq(a, b, self.cfg.final_timeout_ms) {
            Some(false) => {
                self.record("EX", what, true, "solver: PC ∧ equality unsat".into());
                true
            }
            other => {
                let det = format!(
                    "could not show {} ≢ 0 from the path condition (solver {:?})",
                    self.describe(r, 3),
                    other
                );
                self.record("EX", what, false, det.clone());
                self.fail(what, det, other.is_none());
                false
            }
        }
    }


    /// Try to show `r ≢ 0` under PC: find a constant unit c and at most two path-condition
    /// disequalities t_i ≢ 0 with r ≡ c·Πt_i (candidates from the worlds, identity proved by
    /// the solver). Sound because q is prime. Returns the justification.
    pub fn refute_by_units(&mut self, r: u32, pairs: bool) -> Option<String> {
        let mut lits: Vec<u32> = self
            .pc
            .clone()
            .iter()
            .filter_map(|l| if let Lit::Ne(x, y) = l { Some(self.sub(*x, *y)) } else { None })
            .collect();
        let n_pc = lits.len();
        if pairs {
            // final obligations may additionally use "a hash output is non-zero" (an event of
            // probability 1/q over the hash function; logged as an assumption when used)
            for a in self.support(r).iter() {
                if matches!(self.nodes[*a as usize], Node::Uf(..)) && !lits.contains(a) {
                    lits.push(*a);
                }
            }
        }
        let nw = self.worlds.len();
        let rv: Vec<U> = (0..nw).map(|w| self.eval(w, r)).collect();
        if rv.iter().any(|v| v.is_zero()) {
            return None;
        }
        let lv: Vec<Vec<U>> = lits.iter().map(|t| (0..nw).map(|w| self.eval(w, *t)).collect()).collect();
        let try_unit = |me: &mut Ctx, prod_vals: &[U]| -> Option<U> {
            // cheap cross-multiplication test of "same ratio in every world" before inverting
            for w in 1..nw {
                if me.m.mul(&rv[w], &prod_vals[0]) != me.m.mul(&rv[0], &prod_vals[w]) {
                    return None;
                }
            }
            let inv0 = me.m.inv(&prod_vals[0])?;
            let c = me.m.mul(&rv[0], &inv0);
            for w in 1..nw {
                if me.m.mul(&c, &prod_vals[w]) != rv[w] {
                    return None;
                }
            }
            if c.is_zero() { None } else { Some(c) }
        };
        let mut found: Vec<(U, Vec<u32>)> = vec![];
        // the residual may simply be a non-zero constant in disguise
        if rv.iter().all(|v| *v == rv[0]) {
            found.push((rv[0], vec![]));
        }
        for (i, t) in lits.iter().enumerate() {
            if let Some(c) = try_unit(self, &lv[i]) {
                found.push((c, vec![*t]));
            }
        }
        if found.is_empty() && pairs {
            'pairs: for i in 0..lits.len() {
                for j in i..lits.len() {
                    let pv: Vec<U> = (0..nw).map(|w| self.m.mul(&lv[i][w], &lv[j][w])).collect();
                    if let Some(c) = try_unit(self, &pv) {
                        found.push((c, vec![lits[i], lits[j]]));
                        break 'pairs;
                    }
                }
            }
        }
        for (c, ts) in found {
            let mut prod = self.cst(c);
            for t in &ts {
                prod = self.mul(prod, *t);
            }
            let cinv = self.m.inv(&c).expect("unit");
            assert!(self.m.mul(&c, &cinv) == U::ONE);
            if let Some(true) = self.z3_valid_eq(r, prod, self.cfg.final_timeout_ms) {
                for t in &ts {
                    if lits.iter().position(|x| x == t).map(|i| i >= n_pc).unwrap_or(false) {
                        let a = format!("[hash output non-zero] {} ≢ 0", self.describe(*t, 1));
                        if !self.assumptions.contains(&a) {
                            self.assumptions.push(a);
                        }
                    }
                }
                return Some(format!(
                    "residual ≡ 0x{} · {} with each factor ≢ 0 in PC (q prime ⇒ no zero divisors)",
                    c.to_hex(),
                    ts.iter().map(|t| self.describe(*t, 2)).collect::<Vec<_>>().join(" · ")
                ));
            }
        }
        None
    }

    /// (GR) the residual is affine in a fresh atom (a node with id ≥ `fresh_from`, not
    /// occurring anywhere else) with a slope the path condition forces non-zero.
    /// Returns the atom used.
    pub fn prove_gr(&mut self, resid: u32, fresh_from: u32, adv: &[u32], what: &str) -> Option<u32> {
        let lits: Vec<(u32, u32)> = self.pc.iter().filter_map(|l| if let Lit::Ne(x, y) = l { Some((*x, *y)) } else { None }).collect();
        let mut ign = vec![];
        for (x, y) in lits {
            if self.sub(x, y) == resid || self.sub(y, x) == resid {
                ign.push((x, y));
            }
        }
        self.ne_ignore = ign;
        let r = self.prove_gr_d(resid, fresh_from, adv, what, 0);
        self.ne_ignore.clear();
        r
    }
    fn prove_gr_d(&mut self, resid: u32, fresh_from: u32, adv: &[u32], what: &str, depth: u32) -> Option<u32> {
        let deep = self.deep_support(resid);
        // adversarial atoms the residual really depends on (occurrences that cancel do not count)
        let mut adv_in: Vec<u32> = vec![];
        for a in deep.iter().copied().filter(|a| adv.contains(a)) {
            let a1 = self.add(a, 1);
            let shifted = self.subst(resid, a, a1);
            if self.differs_in_some_world(resid, shifted) {
                adv_in.push(a);
            }
        }
        let cands: Vec<u32> = deep.into_iter().filter(|a| *a >= fresh_from && !adv.contains(a)).rev().collect();
        let top = self.support(resid);
        for v in cands {
            if !top.contains(&v) {
                continue;
            }
            // the free atom must not be something the adversary could have chosen its inputs
            // after: a hash output is admissible if every adversarial atom of the residual is
            // already inside its preimage; honest randomness only if no adversarial atom occurs
            match self.nodes[v as usize].clone() {
                Node::Var(vi) => {
                    // honest randomness: admissible if every adversarial input the residual depends
                    // on was fixed before this draw was made (it has a smaller node id)
                    if !self.var_names[vi as usize].starts_with("rng#") || adv_in.iter().any(|a| *a > v) {
                        continue;
                    }
                }
                Node::Uf(sig, args) => {
                    let mut inside = BTreeSet::new();
                    for a in args.iter() {
                        inside.extend(self.deep_support(*a));
                    }
                    if adv_in.iter().any(|a| !inside.contains(a)) {
                        continue;
                    }
                    // A hash output is only "fresh" if the adversary cannot steer its preimage onto the
                    // preimage of another application of the same function (then the two outputs are
                    // one and the same value, however the adversarial inputs were chosen). Adversarial
                    // pivots only; disequalities of the path condition are respected.
                    if !adv_in.is_empty() {
                        let others: Vec<u32> = self.uf_apps.get(&sig).cloned().unwrap_or_default();
                        let mut steerable = false;
                        for w in others {
                            if w == v {
                                continue;
                            }
                            let Node::Uf(_, wargs) = self.nodes[w as usize].clone() else { continue };
                            if wargs.len() != args.len() {
                                continue;
                            }
                            let snap = self.snapshot_worlds();
                            let mut all = true;
                            for (x, y) in args.iter().zip(wargs.iter()) {
                                if x == y {
                                    continue;
                                }
                                let d = self.sub(*x, *y);
                                if !self.adversary_solves(d, adv, 1) {
                                    all = false;
                                    break;
                                }
                            }
                            self.restore_worlds(snap);
                            if all {
                                steerable = true;
                                break;
                            }
                        }
                        if steerable {
                            continue;
                        }
                    }
                }
                _ => continue,
            }
            let dbg = std::env::var("SYMFROST_DEBUG").is_ok();
            if dbg { eprintln!("GR try atom {}", self.describe(v, 1)); }
            let two = self.cst(U::from_u64(2));
            let r0 = self.subst(resid, v, 0);
            let r1 = self.subst(resid, v, 1);
            let r2 = self.subst(resid, v, two);
            let lhs = self.add(r2, r0);
            let rhs = self.add(r1, r1);
            if self.differs_in_some_world(lhs, rhs) {
                if dbg { eprintln!("  not affine"); }
                continue;
            }
            let slope = self.sub(r1, r0);
            if !self.differs_in_some_world(slope, 0) {
                if dbg { eprintln!("  zero slope"); }
                continue;
            }
            if dbg { eprintln!("  slope {}", self.describe(slope, 4)); }
            // solver: affine, and slope non-zero
            if self.z3_valid_eq(lhs, rhs, self.cfg.final_timeout_ms) != Some(true) {
                continue;
            }
            let n_before = self.obligations.len();
            let f_before = self.failures.len();
            let st_before = (self.stats.obligations, self.stats.discharged, self.stats.by_rule.clone());
            let mut ok = self.prove_ne_opt(slope, 0, &format!("{what} [slope in {}]", self.describe(v, 1)), false);
            if !ok && depth == 0 {
                // nested: the slope itself is a generic function of honest randomness
                self.obligations.truncate(n_before);
                self.failures.truncate(f_before);
                self.stats.obligations = st_before.0;
                self.stats.discharged = st_before.1;
                self.stats.by_rule = st_before.2.clone();
                if let Some(v2) = self.prove_gr_d(slope, fresh_from, adv, &format!("{what} [slope in {}]", self.describe(v, 1)), 1) {
                    ok = true;
                    let a = format!("[generic honest randomness] slope of the residual in {} is non-zero unless {} takes one particular value", self.describe(v, 1), self.describe(v2, 1));
                    if !self.assumptions.contains(&a) && self.assumptions.len() < 200 {
                        self.assumptions.push(a);
                    }
                }
            }
            if ok {
                let det = format!(
                    "residual affine in fresh {} with slope {} ≢ 0: exactly one value of it is accepted",
                    self.describe(v, 2),
                    self.describe(slope, 2)
                );
                self.record("GR", what, true, det);
                return Some(v);
            }
            // roll back the failed attempt's bookkeeping; try another atom
            self.obligations.truncate(n_before);
            self.failures.truncate(f_before);
            self.stats.obligations = st_before.0;
            self.stats.discharged = st_before.1;
            self.stats.by_rule = st_before.2;
        }
        let mut det = format!(
            "no fresh atom (id ≥ {fresh_from}) in which residual {} is affine with provably non-zero slope",
            self.describe(resid, 3)
        );
        self.record("GR", what, false, det.clone());
        if depth == 0 {
            // Counter-strategy search: values of the ADVERSARIAL atoms for which the residual
            // vanishes for every value of the honest randomness drawn after them. Only adversarial
            // atoms are pivots (an honest draw hitting the one accepted value is no counterexample).
            // The model found describes the accepting run; it is attached to the failure so that the
            // concrete replay on the real code decides. Path state is restored afterwards.
            let snap = self.snapshot_worlds();
            if self.adversary_solves(resid, adv, 0) {
                det.push_str(" — counter-strategy found: adversarial values for which the residual vanishes for every later honest draw (model attached)");
                self.fail(what, det, false);
                self.restore_worlds(snap);
                return None;
            }
            self.restore_worlds(snap);
        }
        self.fail(what, det, false);
        None
    }

    /// see `prove_gr_d`: make `r` vanish by choosing adversarial atoms only, identically in every
    /// honest draw made after the adversarial atoms `r` depends on
    fn adversary_solves(&mut self, r: u32, adv: &[u32], depth: u32) -> bool {
        if !self.differs_in_some_world(r, 0) {
            return true;
        }
        if depth > 3 {
            return false;
        }
        let deep = self.deep_support(r);
        let max_adv = deep.iter().copied().filter(|a| adv.contains(a)).max();
        let mut sup: Vec<u32> = self.support(r).iter().copied().collect();
        sup.sort_by(|a, b| b.cmp(a));
        for v in sup {
            let later_honest_draw = match self.nodes[v as usize].clone() {
                Node::Var(vi) => self.var_names[vi as usize].starts_with("rng#") && !adv.contains(&v) && max_adv.map_or(true, |m| v > m),
                _ => false,
            };
            if !later_honest_draw {
                continue;
            }
            let two = self.cst(U::from_u64(2));
            let r0 = self.subst(r, v, 0);
            let r1 = self.subst(r, v, 1);
            let r2 = self.subst(r, v, two);
            let lhs = self.add(r2, r0);
            let rhs = self.add(r1, r1);
            if self.differs_in_some_world(lhs, rhs) {
                return false; // not affine in a universally quantified draw: give up
            }
            let slope = self.sub(r1, r0);
            return self.adversary_solves(slope, adv, depth + 1) && self.adversary_solves(r0, adv, depth + 1);
        }
        self.pivot_filter = Some(adv.to_vec());
        let ok = self.try_add_equation(r);
        self.pivot_filter = None;
        ok
    }

    /// structural (non-solver) assertion on concrete control flow or data
    pub fn check(&mut self, cond: bool, what: &str) -> bool {
        self.record("ST", what, cond, String::new());
        if !cond {
            self.fail(what, "structural assertion failed".into(), false);
        }
        cond
    }

    /// End of path: the worlds must be models of the whole path condition (solver-confirmed).
    pub fn confirm_path(&mut self) -> bool {
        if self.cfg.cross_check {
            self.cross_check_path();
        }
        let t0 = Instant::now();
        let ok = self.z3_confirm_worlds();
        self.stats.z3_ms += t0.elapsed().as_secs_f64() * 1000.0;
        if !ok {
            self.fail("path condition", "the solver did not confirm the witness model of the path condition".into(), true);
        } else {
            self.stats.worlds_confirmed += 1;
        }
        ok
    }
}

// ---------------------------------------------------------------------- S

#[derive(Copy, Clone, Debug, Hash)]
pub struct S(pub u32);
pub const S_ZERO: S = S(0);
pub const S_ONE: S = S(1);

impl S {
    pub fn var(name: &str) -> S {
        S(with(|c| c.var(name)))
    }
    pub fn fresh(prefix: &str) -> S {
        S(with(|c| c.fresh(prefix)))
    }
    pub fn cst_u64(v: u64) -> S {
        S(with(|c| c.cst(U::from_u64(v))))
    }
    pub fn cst(v: U) -> S {
        S(with(|c| c.cst(v)))
    }
    pub fn const_val(self) -> Option<U> {
        with(|c| c.const_of(self.0))
    }
    pub fn neg(self) -> S {
        S_ZERO - self
    }
    pub fn invert(self) -> Option<S> {
        match self.const_val() {
            Some(v) => with(|c| c.m.inv(&v).map(|r| S(c.cst(r)))),
            None => {
                // symbolic inverse: a fresh variable constrained by x * inv = 1 is out of the
                // claimed fragment; report as engine limitation
                with(|c| c.fail("symbolic inversion", format!("invert({})", c.describe(self.0, 2)), true));
                Some(S::fresh("inv"))
            }
        }
    }
}
impl core::ops::Add for S {
    type Output = S;
    fn add(self, o: S) -> S {
        S(with(|c| c.add(self.0, o.0)))
    }
}
impl core::ops::Sub for S {
    type Output = S;
    fn sub(self, o: S) -> S {
        S(with(|c| c.sub(self.0, o.0)))
    }
}
impl core::ops::Mul for S {
    type Output = S;
    fn mul(self, o: S) -> S {
        S(with(|c| c.mul(self.0, o.0)))
    }
}
impl PartialEq for S {
    fn eq(&self, o: &S) -> bool {
        with(|c| c.decide_eq(self.0, o.0))
    }
}
impl Eq for S {}

// ---------------------------------------------------------------------- free functions for scenarios

pub struct LabelGuard;
impl Drop for LabelGuard {
    fn drop(&mut self) {
        with(|c| {
            c.labels.pop();
        });
    }
}
pub fn enter(label: &str) -> LabelGuard {
    with(|c| c.labels.push(label.to_string()));
    LabelGuard
}
pub fn set_policy(p: Policy) -> Policy {
    with(|c| core::mem::replace(&mut c.policy, p))
}
pub fn with_policy<R>(p: Policy, f: impl FnOnce() -> R) -> R {
    let old = set_policy(p);
    let r = f();
    set_policy(old);
    r
}
pub fn prove_eq(a: S, b: S, what: &str) -> bool {
    with(|c| c.prove_eq(a.0, b.0, what))
}
pub fn prove_ne(a: S, b: S, what: &str) -> bool {
    with(|c| c.prove_ne(a.0, b.0, what))
}
pub fn prove_gr(resid: S, fresh_from: u32, adv: &[u32], what: &str) -> Option<S> {
    with(|c| c.prove_gr(resid.0, fresh_from, adv, what)).map(S)
}
pub fn check(cond: bool, what: &str) -> bool {
    with(|c| c.check(cond, what))
}
pub fn assume_nonzero(s: S, why: &str) {
    with(|c| c.assume_ne(s.0, 0, why))
}
pub fn assume_ne(a: S, b: S, why: &str) {
    with(|c| c.assume_ne(a.0, b.0, why))
}
pub fn assume_eq(a: S, b: S, why: &str) {
    with(|c| c.assume_eq(a.0, b.0, why))
}
/// node-count marker: atoms created from now on are "fresh" for rule GR
pub fn mark() -> u32 {
    with(|c| c.nodes.len() as u32)
}
pub fn n_decisions() -> usize {
    with(|c| c.decisions.len())
}
pub fn decisions_since(k: usize) -> Vec<Decision> {
    with(|c| c.decisions[k..].to_vec())
}
pub fn prefer_pivot(s: S) {
    with(|c| c.preferred_pivots.push(s.0))
}
pub fn describe(s: S) -> String {
    with(|c| c.describe(s.0, 3))
}
/// is `a == b` *possibly* different (some world separates them)? purely a model query, no PC change
pub fn may_differ(a: S, b: S) -> bool {
    with(|c| c.differs_in_some_world(a.0, b.0))
}
