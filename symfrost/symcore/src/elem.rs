//! Group elements as integer-linear combinations of scalar terms (discrete logarithms
//! w.r.t. the generator). Coefficients are wide integers so that the *real* NAF
//! multiscalar code of `frost-core` can run on "positional" encodings of symbolic
//! scalars (symbolic scalar in slot k reads as the integer 2^(SLOT_BASE + 8k)); the
//! coefficients are decoded back into Σ c_k·scalar_k when the element is observed.
use crate::bn::{Big, U};
use crate::ctx::{with, Ctx, S};
use std::collections::BTreeMap;

/// little-endian layout of the positional scalar view
pub const CONST_BYTES: usize = 64; // constants occupy the low 512 bits
pub const SLOTS: usize = 192; // one byte per slot above that
pub const SLEN: usize = CONST_BYTES + SLOTS;

#[derive(Clone, Debug)]
pub struct ElemEntry {
    pub terms: BTreeMap<u32, Big>,
    /// slot generation the high parts of the coefficients refer to (None = no high parts)
    pub r#gen: Option<usize>,
    /// cached decoded discrete log
    pub dlog: Option<u32>,
    /// positional epoch at creation (see `Ctx::epoch`)
    pub epoch: u64,
}

#[derive(Copy, Clone, Debug)]
pub struct E(pub u32);
pub const E_IDENTITY: E = E(0);
pub const E_GENERATOR: E = E(1);

impl Ctx {
    pub fn init_elems(&mut self) {
        self.elems.clear();
        self.elems.push(ElemEntry { terms: BTreeMap::new(), r#gen: None, dlog: Some(0), epoch: 0 });
        let mut g = BTreeMap::new();
        g.insert(1u32, Big::small(1));
        self.elems.push(ElemEntry { terms: g, r#gen: None, dlog: Some(1), epoch: 0 });
    }
    fn push_elem(&mut self, terms: BTreeMap<u32, Big>, r#gen: Option<usize>) -> u32 {
        let epoch = self.epoch;
        self.elems.push(ElemEntry { terms, r#gen, dlog: None, epoch });
        (self.elems.len() - 1) as u32
    }
    pub fn elem_from_dlog(&mut self, s: u32) -> u32 {
        if s == 0 {
            return 0;
        }
        if s == 1 {
            return 1;
        }
        let mut m = BTreeMap::new();
        m.insert(s, Big::small(1));
        let epoch = self.epoch;
        self.elems.push(ElemEntry { terms: m, r#gen: None, dlog: Some(s), epoch });
        (self.elems.len() - 1) as u32
    }
    /// an element still carrying positional coefficients of a multiscalar that finished before the
    /// latest NAF computation must be decoded before it takes part in new arithmetic (otherwise
    /// positional values would get multiplied with each other)
    fn settle(&mut self, e: u32) -> u32 {
        let ent = &self.elems[e as usize];
        if ent.r#gen.is_some() && ent.epoch < self.epoch {
            let d = self.elem_dlog(e);
            return self.elem_from_dlog(d);
        }
        e
    }
    pub fn elem_comb(&mut self, a: u32, b: u32, neg: bool) -> u32 {
        let (a, b) = (self.settle(a), self.settle(b));
        let ea = self.elems[a as usize].clone();
        let eb = self.elems[b as usize].clone();
        let mut m = ea.terms;
        for (k, v) in eb.terms.iter() {
            let v = if neg { v.neg() } else { *v };
            let n = m.get(k).copied().unwrap_or(Big::ZERO).add(&v);
            if n.is_zero() {
                m.remove(k);
            } else {
                m.insert(*k, n);
            }
        }
        let cbits = self.cfg.layout.const_bits;
        let high = m.values().any(|c| !c.fits_signed(cbits));
        let r#gen = if high {
            match (ea.r#gen, eb.r#gen) {
                (Some(x), Some(y)) => {
                    if x != y {
                        self.fail("element arithmetic", "mixing positional coefficients of two slot generations".into(), true);
                    }
                    Some(x)
                }
                (Some(x), None) | (None, Some(x)) => Some(x),
                (None, None) => Some(self.slot_gens.len() - 1),
            }
        } else {
            None
        };
        self.push_elem(m, r#gen)
    }
    /// slot index of a symbolic scalar in the current generation
    pub fn slot_of(&mut self, s: u32) -> usize {
        let g = self.slot_gens.len() - 1;
        if let Some(p) = self.slot_gens[g].iter().position(|x| *x == s) {
            return p;
        }
        if self.slot_gens[g].len() >= self.cfg.layout.max_slots {
            self.fail("positional encoding", "out of slots in one multiscalar generation".into(), true);
            return self.cfg.layout.max_slots - 1;
        }
        self.slot_gens[g].push(s);
        self.slot_gens[g].len() - 1
    }
    /// decode an element into the scalar term of its discrete logarithm
    pub fn elem_dlog(&mut self, e: u32) -> u32 {
        if let Some(d) = self.elems[e as usize].dlog {
            return d;
        }
        let entry = self.elems[e as usize].clone();
        let slots: Vec<u32> = entry.r#gen.map(|g| self.slot_gens[g].clone()).unwrap_or_default();
        let mut acc = 0u32;
        for (base, coef) in entry.terms.iter() {
            // low part: balanced signed constant of CONST_BYTES*8 bits
            let (lo, mut rest) = coef.split_low_signed(self.cfg.layout.const_bits);
            let (neg, mag) = lo.to_sign_mag();
            let mut cterm = {
                let m = self.m.reduce(&mag);
                let m = if neg { self.m.neg(&m) } else { m };
                self.cst(m)
            };
            let mut k = 0usize;
            while !rest.is_zero() {
                let (dig, r2) = rest.split_low_signed(self.cfg.layout.digit_bits);
                rest = r2;
                if !dig.is_zero() {
                    if k >= slots.len() {
                        self.fail("positional decoding", format!("coefficient digit in unassigned slot {k}"), true);
                        break;
                    }
                    let d = dig.to_i64().unwrap();
                    let dv = if d >= 0 { U::from_u64(d as u64) } else { self.m.neg(&U::from_u64((-d) as u64)) };
                    let dc = self.cst(dv);
                    let t = self.mul(dc, slots[k]);
                    cterm = self.add(cterm, t);
                }
                k += 1;
                if k > self.cfg.layout.max_slots + 1 {
                    self.fail("positional decoding", "coefficient wider than the slot area".into(), true);
                    break;
                }
            }
            let t = self.mul(cterm, *base);
            acc = self.add(acc, t);
        }
        self.elems[e as usize].dlog = Some(acc);
        // a decoded positional result ends the current slot generation
        if let Some(g) = entry.r#gen {
            if g == self.slot_gens.len() - 1 && !self.cfg.layout.global_slots {
                self.slot_gens.push(vec![]);
                self.stats.naf_calls += 1;
            }
        }
        acc
    }
}

impl E {
    pub fn from_dlog(s: S) -> E {
        E(with(|c| c.elem_from_dlog(s.0)))
    }
    pub fn dlog(self) -> S {
        S(with(|c| c.elem_dlog(self.0)))
    }
    pub fn neg(self) -> E {
        E_IDENTITY - self
    }
}
impl core::ops::Add for E {
    type Output = E;
    fn add(self, o: E) -> E {
        E(with(|c| c.elem_comb(self.0, o.0, false)))
    }
}
impl core::ops::Sub for E {
    type Output = E;
    fn sub(self, o: E) -> E {
        E(with(|c| c.elem_comb(self.0, o.0, true)))
    }
}
impl core::ops::Mul<S> for E {
    type Output = E;
    fn mul(self, s: S) -> E {
        E::from_dlog(self.dlog() * s)
    }
}
impl PartialEq for E {
    fn eq(&self, o: &E) -> bool {
        if self.0 == o.0 {
            return true;
        }
        self.dlog() == o.dlog()
    }
}
impl Eq for E {}
