//! symcore — symbolic value domain for executing the real, generic FROST code.
//!
//! A scalar is a handle to a hash-consed term over Z_q (q a real group order);
//! a group element is an integer-linear combination of such terms (its discrete
//! logarithm). Every data-dependent branch of the code under test goes through
//! `PartialEq::eq` on these types, which is decided here:
//!   * validity ("equal for every value allowed by the path condition") is always the
//!     SMT solver's verdict (z3, integers with `mod q`);
//!   * non-validity / feasibility is witnessed by *worlds*: concrete models of the path
//!     condition kept alongside the run, confirmed by the solver at the end of the path.
#![allow(clippy::needless_range_loop)]

pub mod bn;
pub mod ctx;
pub mod elem;
pub mod bytes;
pub mod parity;
pub mod poly;
pub mod smt;
pub mod world;

pub use bn::{Big, Modulus, U};
pub use bytes::*;
pub use ctx::*;
pub use elem::E;
pub use parity::*;

/// Known prime group orders (hex).
pub fn order_hex(name: &str) -> &'static str {
    match name {
        // ristretto255 / Ed25519 prime-order subgroup
        "ed25519" | "ristretto255" => "1000000000000000000000000000000014def9dea2f79cd65812631a5cf5d3ed",
        "secp256k1" => "fffffffffffffffffffffffffffffffebaaedce6af48a03bbfd25e8cd0364141",
        "p256" => "ffffffff00000000ffffffffffffffffbce6faada7179e84f3b9cac2fc632551",
        "ed448" => "3fffffffffffffffffffffffffffffffffffffffffffffffffffffff7cca23e9c44edb49aed63690216cc2728dc58f552378c292ab5844f3",
        _ => panic!("unknown order {name}"),
    }
}
