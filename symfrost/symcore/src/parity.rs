//! secp256k1 stub support: an uninterpreted parity predicate on group elements with
//! odd(-P) = !odd(P), x-coordinates as opaque blocks with x(P) = x(-P), and the 32-byte
//! one-hot scalar encoding (symbolic scalar in slot k is the integer 2^(64+4k)).
use crate::bn::U;
use crate::bytes::{block32, TAG_X};
use crate::ctx::{with, Ctx, S};

impl Ctx {
    fn canon(&self, v: &U) -> (U, bool) {
        let n = self.m.neg(v);
        if n < *v { (n, true) } else { (*v, false) }
    }
    /// parity of the element with discrete log `t`; forks (decision script) when undetermined
    pub fn decide_odd(&mut self, t: u32) -> bool {
        for (u, p) in self.parity.clone() {
            if u == t {
                return p;
            }
        }
        // implied by earlier decisions? (same or opposite point in every world)
        let nw = self.worlds.len();
        let mut implied: Vec<Option<bool>> = vec![];
        for w in 0..nw {
            let v = self.eval(w, t);
            let (c, flip) = self.canon(&v);
            implied.push(self.worlds[w].parity.get(&c).map(|pb| *pb ^ flip));
        }
        if implied.iter().all(|x| x.is_some()) {
            let neg = self.sub(0, t);
            for (u, p) in self.parity.clone() {
                if !self.differs_in_some_world(t, u) && self.z3_valid_eq(t, u, self.cfg.branch_timeout_ms) == Some(true) {
                    self.parity.push((t, p));
                    return p;
                }
                if !self.differs_in_some_world(neg, u) && self.z3_valid_eq(neg, u, self.cfg.branch_timeout_ms) == Some(true) {
                    self.parity.push((t, !p));
                    return !p;
                }
            }
            // worlds coincide by accident only: fall through and decide freshly
        }
        let k = self.taken.len();
        let d = if k < self.cfg.script.len() { self.cfg.script[k] } else { false };
        self.taken.push(d);
        self.stats.forks += 1;
        self.set_parity(t, d);
        d
    }
    pub fn set_parity(&mut self, t: u32, odd: bool) {
        for w in 0..self.worlds.len() {
            let v = self.eval(w, t);
            let (c, flip) = self.canon(&v);
            self.worlds[w].parity.insert(c, odd ^ flip);
        }
        self.parity.push((t, odd));
    }
    /// handle standing for the x-coordinate of the element with discrete log `t`
    pub fn xcoord(&mut self, t: u32) -> u32 {
        let rep = if self.decide_odd(t) { self.sub(0, t) } else { t };
        for u in self.xreps.clone() {
            if u == rep {
                return u;
            }
            if !self.differs_in_some_world(rep, u) && self.z3_valid_eq(rep, u, self.cfg.branch_timeout_ms) == Some(true) {
                return u;
            }
        }
        self.xreps.push(rep);
        if !self.parity.iter().any(|(u, _)| *u == rep) {
            self.set_parity(rep, false);
        }
        rep
    }
}

pub fn decide_odd(s: S) -> bool {
    with(|c| c.decide_odd(s.0))
}
pub fn x_block(s: S) -> [u8; 32] {
    let h = with(|c| c.xcoord(s.0));
    block32(TAG_X, h)
}
/// the even-y point with the x-coordinate in block `b`
pub fn lift_x_block(b: &[u8]) -> Option<S> {
    match crate::bytes::unblock32(b) {
        Some((TAG_X, h)) => {
            with(|c| {
                if !c.xreps.contains(&h) {
                    c.xreps.push(h);
                }
                if !c.parity.iter().any(|(u, _)| *u == h) {
                    c.set_parity(h, false);
                }
            });
            Some(S(h))
        }
        _ => None,
    }
}

/// big-endian 32-byte encoding: constants by value; a symbolic scalar in slot k is 2^(64+4k)
pub fn scalar_be32(s: S) -> [u8; 32] {
    with(|c| {
        if c.ser_log_on {
            c.ser_log.push(('s', s.0));
        }
        match c.const_of(s.0) {
            Some(v) => {
                let le = v.to_le_bytes();
                let mut b = [0u8; 32];
                for i in 0..32 {
                    b[31 - i] = le[i];
                }
                b
            }
            None => {
                c.epoch += 1;
                let r = c.repr(s.0);
                let k = c.slot_of(r);
                let p = 64 + 4 * k;
                let mut b = [0u8; 32];
                b[31 - p / 8] = 1 << (p % 8);
                b
            }
        }
    })
}
fn onehot_slot(b: &[u8]) -> Option<usize> {
    if b.len() != 32 {
        return None;
    }
    let mut pos = None;
    for (i, x) in b.iter().enumerate() {
        if *x != 0 {
            if pos.is_some() || x.count_ones() != 1 {
                return None;
            }
            pos = Some((31 - i) * 8 + x.trailing_zeros() as usize);
        }
    }
    let p = pos?;
    if p >= 64 && (p - 64) % 4 == 0 { Some((p - 64) / 4) } else { None }
}
pub fn scalar_from_be32(b: &[u8; 32]) -> Option<S> {
    if let Some(k) = onehot_slot(b) {
        if let Some(h) = with(|c| c.slot_gens[0].get(k).copied()) {
            return Some(S(h));
        }
    }
    let mut le = [0u8; 32];
    for i in 0..32 {
        le[i] = b[31 - i];
    }
    let v = U::from_le_bytes(&le);
    with(|c| if v < c.m.q { Some(S(c.cst(v))) } else { None })
}
/// recognise a one-hot scalar inside a hash preimage
pub fn onehot_term(b: &[u8]) -> Option<u32> {
    let k = onehot_slot(b)?;
    with(|c| c.slot_gens[0].get(k).copied())
}
