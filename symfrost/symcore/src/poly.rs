//! Canonical polynomial form of a term over Z_q (atoms = variables and hash applications).
//! Used only as a *fallback preprocessing* step when the solver does not decide a query on
//! the raw term DAG within its cap: the goal is re-sent in expanded, collected form.
use crate::bn::U;
use crate::ctx::{Ctx, Node};
use std::collections::{BTreeMap, HashMap};
use std::rc::Rc;

pub type Mono = Vec<(u32, u16)>; // sorted (atom, exponent)
pub type Poly = BTreeMap<Mono, U>;

fn mono_mul(a: &Mono, b: &Mono) -> Mono {
    let mut out: Mono = Vec::with_capacity(a.len() + b.len());
    let (mut i, mut j) = (0, 0);
    while i < a.len() && j < b.len() {
        if a[i].0 == b[j].0 {
            out.push((a[i].0, a[i].1 + b[j].1));
            i += 1;
            j += 1;
        } else if a[i].0 < b[j].0 {
            out.push(a[i]);
            i += 1;
        } else {
            out.push(b[j]);
            j += 1;
        }
    }
    out.extend_from_slice(&a[i..]);
    out.extend_from_slice(&b[j..]);
    out
}

pub const MAX_TERMS: usize = 20000;

impl Ctx {
    /// None if the expansion exceeds MAX_TERMS monomials
    pub fn poly(&mut self, t: u32, memo: &mut HashMap<u32, Option<Rc<Poly>>>) -> Option<Rc<Poly>> {
        if let Some(p) = memo.get(&t) {
            return p.clone();
        }
        // iterative post-order
        let mut stack = vec![(t, false)];
        while let Some((x, exp)) = stack.pop() {
            if memo.contains_key(&x) {
                continue;
            }
            let node = self.nodes[x as usize].clone();
            match node {
                Node::Const(v) => {
                    let mut p = Poly::new();
                    if !v.is_zero() {
                        p.insert(vec![], v);
                    }
                    memo.insert(x, Some(Rc::new(p)));
                }
                Node::Var(_) | Node::Uf(..) => {
                    let mut p = Poly::new();
                    p.insert(vec![(x, 1)], U::ONE);
                    memo.insert(x, Some(Rc::new(p)));
                }
                Node::Add(a, b) | Node::Sub(a, b) | Node::Mul(a, b) => {
                    if !exp {
                        stack.push((x, true));
                        stack.push((a, false));
                        stack.push((b, false));
                        continue;
                    }
                    let (pa, pb) = (memo[&a].clone(), memo[&b].clone());
                    let r = match (pa, pb) {
                        (Some(pa), Some(pb)) => {
                            let is_sub = matches!(self.nodes[x as usize], Node::Sub(..));
                            let is_mul = matches!(self.nodes[x as usize], Node::Mul(..));
                            if is_mul {
                                if pa.len() * pb.len() > 4 * MAX_TERMS {
                                    None
                                } else {
                                    let mut out = Poly::new();
                                    for (ma, ca) in pa.iter() {
                                        for (mb, cb) in pb.iter() {
                                            let m = mono_mul(ma, mb);
                                            let c = self.m.mul(ca, cb);
                                            let e = out.entry(m).or_insert(U::ZERO);
                                            *e = self.m.add(e, &c);
                                        }
                                    }
                                    out.retain(|_, c| !c.is_zero());
                                    if out.len() > MAX_TERMS { None } else { Some(Rc::new(out)) }
                                }
                            } else {
                                let mut out: Poly = (*pa).clone();
                                for (mb, cb) in pb.iter() {
                                    let e = out.entry(mb.clone()).or_insert(U::ZERO);
                                    *e = if is_sub { self.m.sub(e, cb) } else { self.m.add(e, cb) };
                                }
                                out.retain(|_, c| !c.is_zero());
                                if out.len() > MAX_TERMS { None } else { Some(Rc::new(out)) }
                            }
                        }
                        _ => None,
                    };
                    memo.insert(x, r);
                }
            }
        }
        memo[&t].clone()
    }

    /// SMT text of a canonical polynomial (atoms must already be declared)
    pub fn poly_smt(&self, p: &Poly) -> String {
        if p.is_empty() {
            return "0".into();
        }
        let mut terms = vec![];
        for (m, c) in p.iter() {
            let mut f = vec![c.to_dec()];
            for (a, e) in m {
                for _ in 0..*e {
                    f.push(format!("a{a}"));
                }
            }
            if f.len() == 1 { terms.push(f.pop().unwrap()) } else { terms.push(format!("(* {})", f.join(" "))) }
        }
        if terms.len() == 1 { terms.pop().unwrap() } else { format!("(+ {})", terms.join(" ")) }
    }
}
