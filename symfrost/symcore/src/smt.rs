//! SMT back end: one persistent `z3 -in` per thread; terms are integer expressions,
//! equality in Z_q is `(= (mod (- a b) q) 0)` for the real group order q.
use crate::bn::U;
use crate::ctx::{Ctx, Lit, Node};
use std::collections::HashSet;
use std::io::{BufRead, BufReader, Write};
use std::process::{Child, ChildStdin, ChildStdout, Command, Stdio};
use std::time::Instant;

pub struct Z3 {
    child: Child,
    stdin: ChildStdin,
    out: BufReader<ChildStdout>,
    defined: HashSet<u32>,
    marker: u64,
    pub binary: String,
    pub errors: Vec<String>,
}

impl Drop for Z3 {
    fn drop(&mut self) {
        let _ = self.stdin.write_all(b"(exit)\n");
        let _ = self.child.kill();
        let _ = self.child.wait();
    }
}

#[derive(Debug, Clone, Copy, PartialEq, Eq)]
pub enum Ans {
    Sat,
    Unsat,
    Unknown,
}

impl Z3 {
    pub fn spawn() -> Z3 {
        let binary = std::env::var("SYMFROST_Z3").unwrap_or_else(|_| "/usr/bin/z3".to_string());
        let mut child = Command::new(&binary)
            .arg("-in")
            .stdin(Stdio::piped())
            .stdout(Stdio::piped())
            .stderr(Stdio::null())
            .spawn()
            .unwrap_or_else(|e| panic!("cannot start {binary}: {e}"));
        let stdin = child.stdin.take().unwrap();
        let out = BufReader::new(child.stdout.take().unwrap());
        let mut z = Z3 { child, stdin, out, defined: HashSet::new(), marker: 0, binary, errors: vec![] };
        z.send("(set-logic QF_NIA)\n");
        z
    }
    pub fn reset_session(&mut self) {
        self.defined.clear();
        self.send("(reset)\n(set-logic QF_NIA)\n");
    }
    fn send(&mut self, s: &str) {
        self.stdin.write_all(s.as_bytes()).expect("z3 stdin");
    }
    /// send a script containing exactly one (check-sat); returns the answer
    fn query(&mut self, script: &str) -> Ans {
        self.marker += 1;
        let mk = format!("<<{}>>", self.marker);
        self.send(script);
        self.send(&format!("(echo \"{mk}\")\n"));
        self.stdin.flush().expect("z3 flush");
        let mut ans = None;
        let mut err = false;
        loop {
            let mut line = String::new();
            let n = self.out.read_line(&mut line).expect("z3 stdout");
            if n == 0 {
                self.errors.push("z3 closed its output".into());
                return Ans::Unknown;
            }
            let l = line.trim();
            if l == mk || l == format!("\"{mk}\"") {
                break;
            }
            match l {
                "sat" => ans = Some(Ans::Sat),
                "unsat" => ans = Some(Ans::Unsat),
                "unknown" | "timeout" => ans = Some(Ans::Unknown),
                _ => {
                    if l.starts_with("(error") {
                        err = true;
                        self.errors.push(l.to_string());
                    }
                }
            }
        }
        if err {
            return Ans::Unknown;
        }
        ans.unwrap_or(Ans::Unknown)
    }
}

impl Ctx {
    fn z3(&mut self) -> &mut Z3 {
        if self.z3.is_none() {
            self.z3 = Some(Z3::spawn());
        }
        self.z3.as_mut().unwrap()
    }

    /// SMT name of a term; emits the needed definitions into `defs`
    fn smt_name(&mut self, t: u32, defs: &mut String) -> String {
        // iterative to avoid recursion depth problems
        let mut order: Vec<u32> = vec![];
        let mut stack = vec![(t, false)];
        let mut seen: HashSet<u32> = HashSet::new();
        while let Some((x, exp)) = stack.pop() {
            if self.z3.as_ref().map(|z| z.defined.contains(&x)).unwrap_or(false) {
                continue;
            }
            if exp {
                order.push(x);
                continue;
            }
            if !seen.insert(x) {
                continue;
            }
            match &self.nodes[x as usize] {
                Node::Add(a, b) | Node::Sub(a, b) | Node::Mul(a, b) => {
                    stack.push((x, true));
                    stack.push((*a, false));
                    stack.push((*b, false));
                }
                Node::Const(_) => {}
                _ => stack.push((x, true)),
            }
        }
        for x in order {
            let line = match self.nodes[x as usize].clone() {
                Node::Var(_) | Node::Uf(..) => format!("(declare-const a{x} Int)\n"),
                Node::Add(a, b) => format!("(define-fun t{x} () Int (+ {} {}))\n", self.leaf(a), self.leaf(b)),
                Node::Sub(a, b) => format!("(define-fun t{x} () Int (- {} {}))\n", self.leaf(a), self.leaf(b)),
                Node::Mul(a, b) => format!("(define-fun t{x} () Int (* {} {}))\n", self.leaf(a), self.leaf(b)),
                Node::Const(_) => continue,
            };
            defs.push_str(&line);
            self.z3().defined.insert(x);
        }
        self.leaf(t)
    }
    fn leaf(&self, t: u32) -> String {
        match &self.nodes[t as usize] {
            Node::Const(v) => v.to_dec(),
            Node::Var(_) | Node::Uf(..) => format!("a{t}"),
            _ => format!("t{t}"),
        }
    }
    fn eqz(&self, x: &str, y: &str) -> String {
        format!("(= (mod (- {x} {y}) {}) 0)", self.m.q.to_dec())
    }

    fn pc_asserts(&mut self, defs: &mut String, only_eq: bool) -> String {
        let mut s = String::new();
        for l in self.pc.clone() {
            match l {
                Lit::Eq(a, b) => {
                    let (x, y) = (self.smt_name(a, defs), self.smt_name(b, defs));
                    s.push_str(&format!("(assert {})\n", self.eqz(&x, &y)));
                }
                Lit::Ne(a, b) => {
                    if !only_eq {
                        let (x, y) = (self.smt_name(a, defs), self.smt_name(b, defs));
                        s.push_str(&format!("(assert (not {}))\n", self.eqz(&x, &y)));
                    }
                }
            }
        }
        s
    }

    /// second opinion: all final obligations of this path, re-discharged by another solver binary
    pub fn cross_check_path(&mut self) {
        if self.cross_queries.is_empty() {
            return;
        }
        let bin = std::env::var("SYMFROST_CROSS").unwrap_or_else(|_| "z3-new".to_string());
        let mut script = String::from("(set-logic QF_NIA)\n");
        script.push_str(&self.cross_defs);
        for (q, _) in self.cross_queries.iter() {
            script.push_str("(push)\n");
            script.push_str(q);
            script.push_str("(check-sat)\n(pop)\n");
        }
        let path = format!("{}/.build/cross-{}-{:?}.smt2", std::env::var("VERIF_ROOT").unwrap_or_else(|_| "/verif".into()), std::process::id(), std::thread::current().id());
        if std::fs::write(&path, &script).is_err() {
            return;
        }
        let args: Vec<String> = if bin.contains("cvc5") { vec!["--lang".into(), "smt2".into(), "--incremental".into(), "--tlimit-per=3000".into(), path.clone()] } else { vec!["-t:3000".into(), path.clone()] };
        let out = std::process::Command::new(&bin).args(&args).output();
        std::fs::remove_file(&path).ok();
        let Ok(out) = out else { return };
        let text = String::from_utf8_lossy(&out.stdout);
        let answers: Vec<&str> = text.lines().map(|l| l.trim()).filter(|l| ["sat", "unsat", "unknown", "timeout"].contains(l)).collect();
        for (i, (_, proved)) in self.cross_queries.iter().enumerate() {
            self.stats.cross_checked += 1;
            match answers.get(i) {
                Some(&"unsat") if *proved => self.stats.cross_agree += 1,
                Some(&"sat") if *proved => self.stats.cross_disagree += 1,
                _ => self.stats.cross_unknown += 1,
            }
        }
        if self.stats.cross_disagree > 0 {
            self.fail("solver cross-check", format!("{bin} finds a model for an obligation z3 4.8.12 proved"), true);
        }
        self.cross_queries.clear();
    }

    fn run_query(&mut self, defs: String, body: String, timeout_ms: u32) -> Ans {
        let script = format!("{defs}(push)\n(set-option :timeout {timeout_ms})\n{body}(check-sat)\n(pop)\n");
        if self.sample_smt.len() < 3 && body.len() < 4000 && defs.len() > 40 && defs.len() < 6000 {
            // a sample query as sent (with the term definitions it introduced)
            self.sample_smt.push(format!("{defs}(push)\n{body}(check-sat)\n(pop)"));
        }
        if self.cfg.cross_check {
            self.cross_defs.push_str(&defs);
        }
        let t0 = Instant::now();
        let a = self.z3().query(&script);
        if self.cfg.cross_check && self.in_obligation && a == Ans::Unsat && self.cross_queries.len() < 400 {
            self.cross_queries.push((body.clone(), true));
        }
        self.stats.z3_ms += t0.elapsed().as_secs_f64() * 1000.0;
        self.stats.z3_queries += 1;
        match a {
            Ans::Sat => self.stats.z3_sat += 1,
            Ans::Unsat => self.stats.z3_unsat += 1,
            Ans::Unknown => self.stats.z3_unknown += 1,
        }
        a
    }

    /// Is `PC ⇒ a ≡ b` valid? Some(true) = solver proved it; Some(false) = solver has a
    /// counter-model; None = unknown. Tiered: without PC, with PC equalities, with all of PC.
    pub fn z3_valid_eq(&mut self, a: u32, b: u32, timeout_ms: u32) -> Option<bool> {
        let mut defs = String::new();
        let (x, y) = (self.smt_name(a, &mut defs), self.smt_name(b, &mut defs));
        let goal = format!("(assert (not {}))\n", self.eqz(&x, &y));
        // tier 0: identity
        let short = timeout_ms.min(1500);
        let r0 = self.run_query(defs, goal.clone(), short);
        if r0 == Ans::Unsat {
            return Some(true);
        }
        if r0 == Ans::Unknown {
            // fallback: executor-side polynomial normalisation of the goal, solver decides the
            // normalised query
            if let Some(a) = self.normalized_query(a, b, &[], short.max(3000)) {
                self.stats.normalized_fallbacks += 1;
                if a == Ans::Unsat {
                    return Some(true);
                }
            }
        }
        let has_eq = self.pc.iter().any(|l| matches!(l, Lit::Eq(..)));
        let has_ne = self.pc.iter().any(|l| matches!(l, Lit::Ne(..)));
        if has_eq {
            let mut defs = String::new();
            let pc = self.pc_asserts(&mut defs, true);
            let r1 = self.run_query(defs, format!("{pc}{goal}"), timeout_ms);
            if r1 == Ans::Unsat {
                return Some(true);
            }
            if r1 == Ans::Unknown {
                let eqs: Vec<(u32, u32)> = self.pc.iter().filter_map(|l| if let Lit::Eq(x, y) = l { Some((*x, *y)) } else { None }).collect();
                if let Some(a) = self.normalized_query(a, b, &eqs, timeout_ms) {
                    self.stats.normalized_fallbacks += 1;
                    if a == Ans::Unsat {
                        return Some(true);
                    }
                }
            }
        }
        if has_ne {
            let mut defs = String::new();
            let pc = self.pc_asserts(&mut defs, false);
            let r2 = self.run_query(defs, format!("{pc}{goal}"), timeout_ms);
            return match r2 {
                Ans::Unsat => Some(true),
                Ans::Sat => Some(false),
                Ans::Unknown => None,
            };
        }
        if !has_eq && r0 == Ans::Sat {
            return Some(false);
        }
        None
    }

    /// goal and the given path equalities in canonical polynomial form
    fn normalized_query(&mut self, a: u32, b: u32, eqs: &[(u32, u32)], timeout_ms: u32) -> Option<Ans> {
        let mut memo = std::collections::HashMap::new();
        let d = self.sub(a, b);
        let pd = self.poly(d, &mut memo)?;
        let mut defs = String::new();
        let mut body = String::new();
        let mut atoms: Vec<u32> = pd.keys().flat_map(|m| m.iter().map(|x| x.0)).collect();
        let mut eq_polys = vec![];
        for (x, y) in eqs {
            let e = self.sub(*x, *y);
            let pe = self.poly(e, &mut memo)?;
            atoms.extend(pe.keys().flat_map(|m| m.iter().map(|x| x.0)));
            eq_polys.push(pe);
        }
        atoms.sort();
        atoms.dedup();
        for at in atoms {
            let _ = self.smt_name(at, &mut defs);
        }
        let q = self.m.q.to_dec();
        for pe in eq_polys {
            body.push_str(&format!("(assert (= (mod {} {q}) 0))\n", self.poly_smt(&pe)));
        }
        body.push_str(&format!("(assert (not (= (mod {} {q}) 0)))\n", self.poly_smt(&pd)));
        Some(self.run_query(defs, body, timeout_ms))
    }

    /// Is `PC ∧ a ≡ b` satisfiable? Some(false) = solver proved it unsatisfiable.
    pub fn z3_sat_eq(&mut self, a: u32, b: u32, timeout_ms: u32) -> Option<bool> {
        let mut defs = String::new();
        let (x, y) = (self.smt_name(a, &mut defs), self.smt_name(b, &mut defs));
        let pc = self.pc_asserts(&mut defs, false);
        let body = format!("{pc}(assert {})\n", self.eqz(&x, &y));
        match self.run_query(defs, body, timeout_ms) {
            Ans::Unsat => Some(false),
            Ans::Sat => Some(true),
            Ans::Unknown => None,
        }
    }

    /// The worlds are models of the path condition: fix every atom to its world value and
    /// let the solver evaluate PC (ground, so this is evaluation, not search).
    pub fn z3_confirm_worlds(&mut self) -> bool {
        if self.pc.is_empty() {
            return true;
        }
        let mut defs = String::new();
        let pc = self.pc_asserts(&mut defs, false);
        let mut atoms: Vec<u32> = vec![];
        for l in self.pc.clone() {
            let (a, b) = match l {
                Lit::Eq(a, b) | Lit::Ne(a, b) => (a, b),
            };
            for t in [a, b] {
                for at in self.support(t).iter() {
                    if !atoms.contains(at) {
                        atoms.push(*at);
                    }
                }
            }
        }
        // one world suffices as the witness; world 0 is the one reported in replay files
        let mut body = String::new();
        for at in &atoms {
            let v: U = self.eval(0, *at);
            body.push_str(&format!("(assert (= a{at} {}))\n", v.to_dec()));
        }
        body.push_str(&pc);
        let r = self.run_query(defs, body, self.cfg.final_timeout_ms);
        r == Ans::Sat
    }

    pub fn solver_errors(&self) -> Vec<String> {
        self.z3.as_ref().map(|z| z.errors.clone()).unwrap_or_default()
    }
}
