//! Worlds: concrete models of the path condition, maintained alongside a symbolic run.
//! They answer "is this equality not valid?" (a world separating both sides is a
//! counter-model) and "is this equality feasible?" (by solving for a pivot variable),
//! and are handed to the solver for confirmation at the end of every path.
use crate::bn::U;
use crate::ctx::{Ctx, Node, Piece};
use std::collections::HashMap;

#[derive(Clone)]
pub struct World {
    pub seed: u64,
    /// values forced by solving path equations: atom node id -> value
    pub fixed: HashMap<u32, U>,
    pub cache: Vec<Option<U>>,
    /// parity of the canonical representative min(v, q-v) of an element's discrete log
    pub parity: HashMap<U, bool>,
}

fn mix(mut x: u64) -> u64 {
    x = x.wrapping_add(0x9E37_79B9_7F4A_7C15);
    x = (x ^ (x >> 30)).wrapping_mul(0xBF58_476D_1CE4_E5B9);
    x = (x ^ (x >> 27)).wrapping_mul(0x94D0_49BB_1331_11EB);
    x ^ (x >> 31)
}

/// 512 pseudo-random bits from a sequence of words
pub fn prf(seed: u64, words: &[u64]) -> U {
    let mut h = mix(seed ^ 0x5157_4652_4F53_5421);
    for w in words {
        h = mix(h ^ mix(*w));
    }
    let mut out = [0u64; 8];
    for (i, o) in out.iter_mut().enumerate() {
        *o = mix(h ^ ((i as u64 + 1) << 56) ^ 0xA5A5);
        h = mix(h.wrapping_add(*o));
    }
    U(out)
}

impl World {
    pub fn new(seed: u64) -> World {
        World { seed, fixed: HashMap::new(), cache: vec![], parity: HashMap::new() }
    }
}

pub struct WorldSnapshot {
    fixed: Vec<HashMap<u32, U>>,
    pivots: Vec<u32>,
    equations: Vec<u32>,
}

impl Ctx {
    fn sig_words(&self, sig: u32) -> Vec<u64> {
        let s = &self.sigs[sig as usize];
        let mut w: Vec<u64> = s.name.bytes().map(|b| b as u64).collect();
        for p in &s.shape {
            match p {
                Piece::Lit(b) => {
                    w.push(0x4C00 | b.len() as u64);
                    for ch in b.chunks(8) {
                        let mut x = 0u64;
                        for (i, y) in ch.iter().enumerate() {
                            x |= (*y as u64) << (8 * i);
                        }
                        w.push(x);
                    }
                }
                Piece::Term(t) => w.push(0x5400 | *t as u64),
            }
        }
        w
    }

    /// value of term `t` in world `w`
    pub fn eval(&mut self, w: usize, t: u32) -> U {
        if self.worlds[w].cache.len() < self.nodes.len() {
            let n = self.nodes.len();
            self.worlds[w].cache.resize(n, None);
        }
        if let Some(v) = self.worlds[w].cache[t as usize] {
            return v;
        }
        // iterative post-order to avoid deep recursion on long sums
        let mut stack: Vec<(u32, bool)> = vec![(t, false)];
        while let Some((x, expanded)) = stack.pop() {
            if self.worlds[w].cache[x as usize].is_some() {
                continue;
            }
            let node = self.nodes[x as usize].clone();
            if !expanded {
                match &node {
                    Node::Add(a, b) | Node::Sub(a, b) | Node::Mul(a, b) => {
                        stack.push((x, true));
                        stack.push((*a, false));
                        stack.push((*b, false));
                        continue;
                    }
                    Node::Uf(_, args) => {
                        if !self.worlds[w].fixed.contains_key(&x) {
                            stack.push((x, true));
                            for a in args {
                                stack.push((*a, false));
                            }
                            continue;
                        }
                    }
                    _ => {}
                }
            }
            let v = match node {
                Node::Const(v) => v,
                Node::Var(vi) => {
                    if let Some(v) = self.worlds[w].fixed.get(&x) {
                        *v
                    } else {
                        let r = prf(self.worlds[w].seed, &[0x7661_72, vi as u64]);
                        self.m.reduce(&r)
                    }
                }
                Node::Add(a, b) => {
                    let (va, vb) = (self.worlds[w].cache[a as usize].unwrap(), self.worlds[w].cache[b as usize].unwrap());
                    self.m.add(&va, &vb)
                }
                Node::Sub(a, b) => {
                    let (va, vb) = (self.worlds[w].cache[a as usize].unwrap(), self.worlds[w].cache[b as usize].unwrap());
                    self.m.sub(&va, &vb)
                }
                Node::Mul(a, b) => {
                    let (va, vb) = (self.worlds[w].cache[a as usize].unwrap(), self.worlds[w].cache[b as usize].unwrap());
                    self.m.mul(&va, &vb)
                }
                Node::Uf(sig, args) => {
                    if let Some(v) = self.worlds[w].fixed.get(&x) {
                        *v
                    } else {
                        // a pseudo-random function of the *values* of the arguments: functionally
                        // consistent by construction
                        let mut words = self.sig_words(sig);
                        for a in &args {
                            let va = self.worlds[w].cache[*a as usize].unwrap();
                            words.extend_from_slice(&va.0);
                        }
                        let r = prf(self.worlds[w].seed ^ 0x7566, &words);
                        self.m.reduce(&r)
                    }
                }
            };
            self.worlds[w].cache[x as usize] = Some(v);
        }
        self.worlds[w].cache[t as usize].unwrap()
    }

    pub fn differs_in_some_world(&mut self, a: u32, b: u32) -> bool {
        for w in 0..self.worlds.len() {
            if self.eval(w, a) != self.eval(w, b) {
                return true;
            }
        }
        false
    }

    /// fingerprint of a term: its values in all worlds
    pub fn fingerprint(&mut self, t: u32) -> Vec<U> {
        (0..self.worlds.len()).map(|w| self.eval(w, t)).collect()
    }

    pub fn snapshot_worlds(&self) -> WorldSnapshot {
        WorldSnapshot {
            fixed: self.worlds.iter().map(|w| w.fixed.clone()).collect(),
            pivots: self.pivots.clone(),
            equations: self.equations.clone(),
        }
    }
    pub fn restore_worlds(&mut self, s: WorldSnapshot) {
        let changed = s.pivots.len() != self.pivots.len()
            || self.worlds.iter().zip(s.fixed.iter()).any(|(w, f)| w.fixed.len() != f.len() || w.fixed.iter().any(|(k, v)| f.get(k) != Some(v)));
        for (w, f) in self.worlds.iter_mut().zip(s.fixed.into_iter()) {
            w.fixed = f;
            if changed {
                w.cache.clear();
            }
        }
        self.pivots = s.pivots;
        self.equations = s.equations;
    }

    fn set_fixed(&mut self, w: usize, atom: u32, v: U) {
        self.worlds[w].fixed.insert(atom, v);
        self.worlds[w].cache.clear();
    }

    /// Try to make `d ≡ 0` hold in every world (in addition to the equations already imposed)
    /// by choosing a new pivot atom and solving jointly. Returns false if no pivot works.
    pub fn try_add_equation(&mut self, d: u32) -> bool {
        // already satisfied everywhere?
        let all_zero = (0..self.worlds.len()).all(|w| self.eval(w, d).is_zero());
        if all_zero {
            self.equations.push(d);
            // keep pivots/equations square: use a dummy pivot entry (u32::MAX = none)
            self.pivots.push(u32::MAX);
            return true;
        }
        let sup: Vec<u32> = self.support(d).iter().copied().collect();
        let mut cands: Vec<u32> = vec![];
        for p in self.preferred_pivots.clone().iter().rev() {
            if sup.contains(p) && !self.pivots.contains(p) && matches!(self.nodes[*p as usize], Node::Var(_)) {
                cands.push(*p);
            }
        }
        // newest variables first; Var atoms before Uf atoms
        let mut vars: Vec<u32> = sup.iter().copied().filter(|a| matches!(self.nodes[*a as usize], Node::Var(_))).collect();
        vars.sort_by(|a, b| b.cmp(a));
        // hash outputs are never pivots: "some hash function makes these equal" is not a path
        // worth exploring (rule GR covers those comparisons)
        for v in vars.into_iter() {
            if !self.pivots.contains(&v) && !cands.contains(&v) {
                cands.push(v);
            }
        }
        if let Some(f) = &self.pivot_filter {
            cands.retain(|c| f.contains(c));
        }
        let snap = self.snapshot_worlds();
        for v in cands.into_iter().take(12) {
            self.pivots.push(v);
            self.equations.push(d);
            let mut ok = true;
            for w in 0..self.worlds.len() {
                if !self.solve_world(w) {
                    ok = false;
                    break;
                }
            }
            if ok {
                // the extended worlds must still satisfy every disequality of the path condition
                let nes: Vec<(u32, u32)> = self.pc.iter().filter_map(|l| if let crate::ctx::Lit::Ne(x, y) = l { Some((*x, *y)) } else { None }).collect();
                for w in 0..self.worlds.len() {
                    for (x, y) in nes.iter() {
                        if self.ne_ignore.contains(&(*x, *y)) {
                            continue;
                        }
                        if self.eval(w, *x) == self.eval(w, *y) {
                            ok = false;
                        }
                    }
                }
            }
            if ok {
                return true;
            }
            self.restore_worlds(WorldSnapshot {
                fixed: snap.fixed.clone(),
                pivots: snap.pivots.clone(),
                equations: snap.equations.clone(),
            });
        }
        false
    }

    /// One Newton step on the (jointly affine) system equations(pivots) = 0 in world `w`,
    /// followed by verification.
    fn solve_world(&mut self, w: usize) -> bool {
        let piv: Vec<(usize, u32)> = self.pivots.iter().copied().enumerate().filter(|(_, p)| *p != u32::MAX).collect();
        let eqs: Vec<u32> = self.equations.clone();
        let k = piv.len();
        if k == 0 {
            return eqs.iter().all(|e| self.eval(w, *e).is_zero());
        }
        // current pivot values
        let x0: Vec<U> = piv.iter().map(|(_, p)| self.eval(w, *p)).collect();
        for (i, (_, p)) in piv.iter().enumerate() {
            self.set_fixed(w, *p, x0[i]);
        }
        let f0: Vec<U> = eqs.iter().map(|e| self.eval(w, *e)).collect();
        // Jacobian columns by unit perturbation (exact for an affine system)
        let ne = eqs.len();
        let mut jac = vec![vec![U::ZERO; k]; ne];
        for j in 0..k {
            let xj = self.m.add(&x0[j], &U::ONE);
            self.set_fixed(w, piv[j].1, xj);
            for (i, e) in eqs.iter().enumerate() {
                let fi = self.eval(w, *e);
                jac[i][j] = self.m.sub(&fi, &f0[i]);
            }
            self.set_fixed(w, piv[j].1, x0[j]);
        }
        // solve jac * delta = -f0 (least structure: Gaussian elimination, ne >= k rows)
        let mut a: Vec<Vec<U>> = (0..ne)
            .map(|i| {
                let mut row = jac[i].clone();
                row.push(self.m.neg(&f0[i]));
                row
            })
            .collect();
        let mut row = 0;
        let mut where_col = vec![usize::MAX; k];
        for col in 0..k {
            let mut sel = None;
            for r in row..ne {
                if !a[r][col].is_zero() {
                    sel = Some(r);
                    break;
                }
            }
            let Some(sel) = sel else { continue };
            a.swap(row, sel);
            let inv = self.m.inv(&a[row][col]).unwrap();
            for c in col..=k {
                a[row][c] = self.m.mul(&a[row][c], &inv);
            }
            for r in 0..ne {
                if r != row && !a[r][col].is_zero() {
                    let f = a[r][col];
                    for c in col..=k {
                        let t = self.m.mul(&f, &a[row][c]);
                        a[r][c] = self.m.sub(&a[r][c], &t);
                    }
                }
            }
            where_col[col] = row;
            row += 1;
            if row == ne {
                break;
            }
        }
        // inconsistent rows?
        for r in row..ne {
            if !a[r][k].is_zero() {
                return false;
            }
        }
        for j in 0..k {
            let delta = if where_col[j] == usize::MAX { U::ZERO } else { a[where_col[j]][k] };
            let nv = self.m.add(&x0[j], &delta);
            self.set_fixed(w, piv[j].1, nv);
        }
        // verify (fails when the system is not affine in the pivots, e.g. a pivot sits inside a hash)
        eqs.iter().all(|e| self.eval(w, *e).is_zero())
    }
}
