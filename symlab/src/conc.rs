//! Concrete `Lab` over a real ciphersuite: replays solver models against the real code
//! and validates the symbolic encoding (every obligation a scenario states must also hold
//! when the same scenario runs on the real suite with concrete values).
use core::convert::Infallible;
use core::marker::PhantomData;
use frost_core::{Ciphersuite, Element, Scalar};
use rand_core::{TryCryptoRng, TryRng};
use scen::lab::{g, Lab, Pol};
use scen::util::{scalar_from_limbs, splitmix};
use std::collections::HashMap;

pub struct ConcRng {
    pub k: usize,
    pub seed: u64,
    pub model: HashMap<String, Vec<u64>>,
    pub log: Vec<usize>,
    pub bytes: Vec<Vec<u8>>,
}
impl TryRng for ConcRng {
    type Error = Infallible;
    fn try_next_u32(&mut self) -> Result<u32, Infallible> {
        let mut b = [0u8; 4];
        self.try_fill_bytes(&mut b)?;
        Ok(u32::from_le_bytes(b))
    }
    fn try_next_u64(&mut self) -> Result<u64, Infallible> {
        let mut b = [0u8; 8];
        self.try_fill_bytes(&mut b)?;
        Ok(u64::from_le_bytes(b))
    }
    fn try_fill_bytes(&mut self, dst: &mut [u8]) -> Result<(), Infallible> {
        let name = format!("rng#{}", self.k);
        self.k += 1;
        self.log.push(dst.len());
        dst.fill(0);
        if let Some(limbs) = self.model.get(&name) {
            // the model value in the low bytes (little-endian); for suites that reduce a wide
            // little-endian string (ristretto255) the resulting scalar is exactly the model's
            let mut bytes = vec![];
            for l in limbs {
                bytes.extend_from_slice(&l.to_le_bytes());
            }
            let n = bytes.len().min(dst.len());
            dst[..n].copy_from_slice(&bytes[..n]);
        } else {
            let mut s = self.seed ^ (self.k as u64).wrapping_mul(0xD1B5_4A32_D192_ED03);
            for ch in dst.chunks_mut(8) {
                let w = splitmix(&mut s).to_le_bytes();
                ch.copy_from_slice(&w[..ch.len()]);
            }
        }
        self.bytes.push(dst.to_vec());
        Ok(())
    }
}
impl TryCryptoRng for ConcRng {}

/// hands out one recorded answer; any further (or differently sized) request gets the encoding
/// of a small value, so that rejection-sampling loops terminate, and is flagged
struct OnceRng {
    bytes: Vec<u8>,
    used: usize,
    mismatch: bool,
}
impl TryRng for OnceRng {
    type Error = Infallible;
    fn try_next_u32(&mut self) -> Result<u32, Infallible> {
        let mut b = [0u8; 4];
        self.try_fill_bytes(&mut b)?;
        Ok(u32::from_le_bytes(b))
    }
    fn try_next_u64(&mut self) -> Result<u64, Infallible> {
        let mut b = [0u8; 8];
        self.try_fill_bytes(&mut b)?;
        Ok(u64::from_le_bytes(b))
    }
    fn try_fill_bytes(&mut self, dst: &mut [u8]) -> Result<(), Infallible> {
        self.used += 1;
        if self.used == 1 && dst.len() == self.bytes.len() {
            dst.copy_from_slice(&self.bytes);
        } else {
            self.mismatch = true;
            dst.fill(0);
            if let Some(m) = dst.get_mut(dst.len() / 2) {
                *m = 1;
            }
        }
        Ok(())
    }
}
impl TryCryptoRng for OnceRng {}

pub struct ConcLab<C: Ciphersuite> {
    pub rng: ConcRng,
    pub failures: Vec<String>,
    pub checks: u64,
    labels: Vec<String>,
    lin: HashMap<String, String>,
    /// independent hash reference for this suite (set by the runner for the RFC suites)
    pub ref_hash: Option<fn(u8, &[u8]) -> Option<Vec<u8>>>,
    _c: PhantomData<C>,
}

pub fn hex_to_limbs(h: &str) -> Vec<u64> {
    let h = h.trim_start_matches("0x");
    let mut limbs = vec![];
    let bytes = h.as_bytes();
    let mut end = bytes.len();
    while end > 0 {
        let start = end.saturating_sub(16);
        limbs.push(u64::from_str_radix(core::str::from_utf8(&bytes[start..end]).unwrap(), 16).unwrap_or(0));
        end = start;
    }
    if limbs.is_empty() {
        limbs.push(0);
    }
    limbs
}

impl<C: Ciphersuite> ConcLab<C> {
    pub fn new(seed: u64, model: &[(String, String)]) -> Self {
        let mut m = HashMap::new();
        let mut lin = HashMap::new();
        for (k, v) in model {
            if let Some(n) = k.strip_prefix("lin:") {
                lin.insert(n.to_string(), v.clone());
                continue;
            }
            if !k.starts_with("parity[") {
                m.insert(k.clone(), hex_to_limbs(v));
            }
        }
        ConcLab { rng: ConcRng { k: 0, seed, model: m, log: vec![], bytes: vec![] }, failures: vec![], checks: 0, labels: vec![], lin, ref_hash: None, _c: PhantomData }
    }
    fn named(&mut self, name: &str) -> Scalar<C> {
        if let Some(l) = self.rng.model.get(name) {
            return scalar_from_limbs::<C>(l);
        }
        let mut s = self.rng.seed;
        for b in name.bytes() {
            s = s.wrapping_mul(0x100_0000_01B3) ^ b as u64;
        }
        let limbs = [splitmix(&mut s), splitmix(&mut s), splitmix(&mut s), splitmix(&mut s), splitmix(&mut s), splitmix(&mut s), splitmix(&mut s)];
        scalar_from_limbs::<C>(&limbs)
    }
    fn rec(&mut self, ok: bool, what: &str) -> bool {
        self.checks += 1;
        if !ok {
            self.failures.push(format!("{}: {}", self.labels.join("/"), what));
        }
        ok
    }
}

impl<C: Ciphersuite> Lab<C> for ConcLab<C> {
    type Rng = ConcRng;
    fn rng(&mut self) -> &mut ConcRng {
        &mut self.rng
    }
    fn symbolic(&self) -> bool {
        false
    }
    fn scalar(&mut self, name: &str) -> Scalar<C> {
        self.named(name)
    }
    fn nz_scalar(&mut self, name: &str) -> Scalar<C> {
        self.named(name)
    }
    fn adv_scalar(&mut self, name: &str) -> Scalar<C> {
        self.named(name)
    }
    fn jointly_uniform(&mut self, values: &[Scalar<C>], what: &str) -> bool {
        // nothing can be differentiated concretely; the observable consequence is checked: pairwise distinct
        let mut ok = true;
        for i in 0..values.len() {
            for j in (i + 1)..values.len() {
                ok &= values[i] != values[j];
            }
        }
        self.rec(ok, what)
    }
    fn jointly_uniform_e(&mut self, values: &[Element<C>], what: &str) -> bool {
        let mut ok = true;
        for i in 0..values.len() {
            for j in (i + 1)..values.len() {
                ok &= values[i] != values[j];
            }
        }
        self.rec(ok, what)
    }
    fn ref_hash(&mut self, which: u8, input: &[u8], got: &[u8], what: &str) -> bool {
        match self.ref_hash.and_then(|f| f(which, input)) {
            Some(want) => self.rec(want == got, what),
            None => true,
        }
    }
    fn adv_scalar_among(&mut self, name: &str, candidates: &[Scalar<C>]) -> Scalar<C> {
        if let Some(k) = self.rng.model.get(&format!("among:{name}")) {
            if let Some(c) = candidates.get(k[0] as usize) {
                return *c;
            }
        }
        if let Some(code) = self.lin.get(name).cloned() {
            // digits '0','1','2' = coefficients -1, 0, 1 over the candidates
            use frost_core::{Field, Group};
            let mut acc = <<C::Group as Group>::Field as Field>::zero();
            for (d, c) in code.bytes().zip(candidates.iter()) {
                match d {
                    b'2' => acc = acc + *c,
                    b'0' => acc = acc - *c,
                    _ => {}
                }
            }
            return acc;
        }
        self.named(name)
    }
    fn adv_element(&mut self, name: &str) -> Element<C> {
        let s = self.named(&format!("dlog({name})"));
        g::<C>() * s
    }
    fn message(&mut self, name: &str) -> Vec<u8> {
        let mut s = self.rng.seed ^ 0x6d73_67;
        for b in name.bytes() {
            s = s.wrapping_mul(0x100_0000_01B3) ^ b as u64;
        }
        let mut v = vec![];
        for _ in 0..4 {
            v.extend_from_slice(&splitmix(&mut s).to_le_bytes());
        }
        v
    }
    fn eq_s(&mut self, a: Scalar<C>, b: Scalar<C>, what: &str) -> bool {
        self.rec(a == b, what)
    }
    fn eq_e(&mut self, a: Element<C>, b: Element<C>, what: &str) -> bool {
        self.rec(a == b, what)
    }
    fn ne_s(&mut self, a: Scalar<C>, b: Scalar<C>, what: &str) -> bool {
        self.rec(a != b, what)
    }
    fn ne_e(&mut self, a: Element<C>, b: Element<C>, what: &str) -> bool {
        self.rec(a != b, what)
    }
    fn check(&mut self, cond: bool, what: &str) -> bool {
        self.rec(cond, what)
    }
    fn enter(&mut self, label: &str) {
        self.labels.push(label.to_string());
    }
    fn leave(&mut self) {
        self.labels.pop();
    }
    fn set_policy(&mut self, p: Pol) -> Pol {
        p
    }
    fn mark(&mut self) -> u64 {
        0
    }
    fn expect_reject(&mut self, _mark: u64, accepted: bool, what: &str) -> bool {
        self.rec(!accepted, &format!("{what}: input was accepted where rejection is required"))
    }
    fn ne_generic_s(&mut self, a: Scalar<C>, b: Scalar<C>, what: &str) -> bool {
        self.rec(a != b, what)
    }
    fn ne_generic_e(&mut self, a: Element<C>, b: Element<C>, what: &str) -> bool {
        self.rec(a != b, what)
    }
    fn holds_eq_s(&mut self, a: Scalar<C>, b: Scalar<C>) -> Option<bool> {
        Some(a == b)
    }
    fn holds_eq_e(&mut self, a: Element<C>, b: Element<C>) -> Option<bool> {
        Some(a == b)
    }
    fn assume_ne_s(&mut self, _a: Scalar<C>, _b: Scalar<C>, _why: &str) {}
    fn rng_requests(&self) -> Vec<usize> {
        self.rng.log.clone()
    }
    fn depends_on_draw(&mut self, _out: Scalar<C>, _k: usize, _what: &str) -> bool {
        true
    }
    fn draw_scalar(&mut self, k: usize) -> Option<Scalar<C>> {
        // the scalar the suite's own `Field::random` makes of the bytes of request k (if that
        // request has the shape of one accepted scalar draw)
        use frost_core::{Field, Group};
        let bytes = self.rng.bytes.get(k)?.clone();
        let mut once = OnceRng { bytes, used: 0, mismatch: false };
        let s = <<C::Group as Group>::Field as Field>::random(&mut once);
        if once.used != 1 || once.mismatch {
            return None;
        }
        Some(s)
    }
    fn cmp_scalars(&mut self, a: Scalar<C>, b: Scalar<C>) -> core::cmp::Ordering {
        use frost_core::{Field, Group};
        let x = <<C::Group as Group>::Field as Field>::little_endian_serialize(&a);
        let y = <<C::Group as Group>::Field as Field>::little_endian_serialize(&b);
        x.as_ref().iter().rev().cmp(y.as_ref().iter().rev())
    }
    fn watch_serialization(&mut self, _on: bool) {}
    fn leaked(&mut self, rendered: &str, secrets: &[Scalar<C>]) -> bool {
        let text = rendered.to_lowercase();
        for s in secrets {
            let b = scen::lab::ser_s::<C>(s);
            if b.iter().all(|x| *x == 0) {
                continue;
            }
            let hex: String = b.iter().map(|x| format!("{x:02x}")).collect();
            let mut rev = b.clone();
            rev.reverse();
            let hex_rev: String = rev.iter().map(|x| format!("{x:02x}")).collect();
            if text.contains(&hex) || text.contains(&hex_rev) {
                return true;
            }
        }
        false
    }
    fn draw_bytes(&mut self, k: usize) -> Option<Vec<u8>> {
        self.rng.bytes.get(k).cloned()
    }
    fn eq_bytes(&mut self, a: &[u8], b: &[u8], what: &str) -> bool {
        self.rec(a == b, what)
    }
    fn all_distinct_generic(&mut self, xs: &[Scalar<C>], what: &str) -> bool {
        let mut ok = true;
        for i in 0..xs.len() {
            for j in (i + 1)..xs.len() {
                ok &= xs[i] != xs[j];
            }
        }
        self.rec(ok, what)
    }
}
