//! Path exploration (depth-first over decision scripts), parallel case sweep, result
//! aggregation.
use std::panic::{catch_unwind, AssertUnwindSafe};
use std::sync::atomic::{AtomicUsize, Ordering};
use std::sync::Mutex;
use std::time::Instant;
use symcore::{Failure, Obligation, RunCfg, Stats};

#[derive(Default, Clone, Debug)]
pub struct CaseResult {
    pub desc: String,
    pub paths: u64,
    pub stats: Stats,
    pub failures: Vec<Failure>,
    pub sample_obligations: Vec<Obligation>,
    pub sample_smt: Vec<String>,
    pub assumptions: Vec<String>,
    pub notes: Vec<String>,
    pub solver_errors: Vec<String>,
    pub wall_s: f64,
    pub truncated: bool,
    pub rng_requests_last: Vec<usize>,
}

pub fn add_stats(a: &mut Stats, b: &Stats) {
    a.z3_queries += b.z3_queries;
    a.z3_unsat += b.z3_unsat;
    a.z3_sat += b.z3_sat;
    a.z3_unknown += b.z3_unknown;
    a.z3_ms += b.z3_ms;
    a.decisions_valid += b.decisions_valid;
    a.decisions_infeasible += b.decisions_infeasible;
    a.forks += b.forks;
    a.assumed += b.assumed;
    a.obligations += b.obligations;
    a.discharged += b.discharged;
    for (k, v) in b.by_rule.iter() {
        *a.by_rule.entry(k).or_insert(0) += v;
    }
    a.uf_apps += b.uf_apps;
    a.nodes += b.nodes;
    a.worlds_confirmed += b.worlds_confirmed;
    a.naf_calls += b.naf_calls;
    a.normalized_fallbacks += b.normalized_fallbacks;
    a.cross_checked += b.cross_checked;
    a.cross_agree += b.cross_agree;
    a.cross_unknown += b.cross_unknown;
    a.cross_disagree += b.cross_disagree;
}

thread_local! {
    static LAST_PANIC: std::cell::RefCell<Option<String>> = const { std::cell::RefCell::new(None) };
}
pub fn install_quiet_panic_hook() {
    std::panic::set_hook(Box::new(|info| {
        let msg = if let Some(s) = info.payload().downcast_ref::<&str>() {
            s.to_string()
        } else if let Some(s) = info.payload().downcast_ref::<String>() {
            s.clone()
        } else {
            "panic".to_string()
        };
        let loc = info.location().map(|l| format!(" at {}:{}", l.file(), l.line())).unwrap_or_default();
        if std::thread::current().name() == Some("main") && std::env::var("SYMFROST_QUIET_MAIN").is_err() {
            eprintln!("panic in main thread: {msg}{loc}");
        }
        LAST_PANIC.with(|p| *p.borrow_mut() = Some(format!("{msg}{loc}")));
    }));
}
pub fn take_panic() -> Option<String> {
    LAST_PANIC.with(|p| p.borrow_mut().take())
}

/// Explore every path of one scenario case. `body` runs the scenario once on the current
/// symbolic context and returns free-form notes.
pub fn explore_case(desc: String, base: &RunCfg, max_paths: u64, body: &dyn Fn() -> Vec<String>) -> CaseResult {
    let t0 = Instant::now();
    let mut res = CaseResult { desc, ..Default::default() };
    let mut work: Vec<Vec<bool>> = vec![vec![]];
    while let Some(script) = work.pop() {
        if res.paths >= max_paths {
            res.truncated = true;
            break;
        }
        let mut cfg = base.clone();
        cfg.script = script.clone();
        symcore::reset(cfg);
        let r = catch_unwind(AssertUnwindSafe(|| body()));
        let panicked = r.is_err();
        if let Ok(notes) = r {
            for n in notes {
                if !res.notes.contains(&n) && res.notes.len() < 64 {
                    res.notes.push(n);
                }
            }
        }
        let pmsg = take_panic();
        symcore::with(|c| {
            if panicked {
                let m = pmsg.clone().unwrap_or_default();
                // engine-internal assertion failures are inconclusive, panics in the code under test are findings
                // a panic located in the scenario sources is a harness fault when it is arithmetic (my bug: inconclusive);
                // a failed lookup / index / unwrap there means the code under test returned something the
                // scenario could not consume (a missing map entry, a shorter vector): that is a finding
                let in_scen = m.contains("/scen/src/") || m.contains("/scen-tr/src/");
                let lookup = m.contains("no entry found for key") || m.contains("index out of bounds") || m.contains("on a `None` value") || m.contains("range end index") || m.contains("range start index") || m.contains("out of range for slice");
                let engine = m.contains("symcore") || m.contains("symlab") || m.contains("Big overflow") || (in_scen && !lookup);
                c.fail("panic", format!("the scenario panicked: {m}"), engine);
            }
            c.confirm_path();
            if std::env::var("SYMFROST_DUMP").is_ok() {
                for o in c.obligations.iter() {
                    eprintln!("  [{}] {} {} :: {}", o.rule, if o.ok { "ok  " } else { "FAIL" }, o.label, o.detail.chars().take(200).collect::<String>());
                }
                for a in c.assumptions.iter() {
                    eprintln!("  assume {a}");
                }
            }
            c.stats.nodes = c.nodes.len() as u64;
            add_stats(&mut res.stats, &c.stats);
            for f in c.failures.drain(..) {
                if res.failures.len() < 50 {
                    res.failures.push(f);
                }
            }
            if res.sample_obligations.len() < 12 {
                // one of each rule, preferring the solver-decided ones that carry a justification
                for rule in ["GR", "EX", "EN", "ID", "ST"] {
                    if let Some(o) = c
                        .obligations
                        .iter()
                        .filter(|o| o.rule == rule && !res.sample_obligations.iter().any(|s| s.rule == rule && s.label == o.label))
                        .max_by_key(|o| o.detail.len().min(1))
                    {
                        res.sample_obligations.push(o.clone());
                    }
                }
            }
            if res.sample_smt.len() < 2 {
                res.sample_smt.extend(c.sample_smt.iter().take(2).cloned());
            }
            if res.assumptions.len() < 40 {
                for a in c.assumptions.iter() {
                    if !res.assumptions.contains(a) && res.assumptions.len() < 40 {
                        res.assumptions.push(a.clone());
                    }
                }
            }
            for e in c.solver_errors() {
                if res.solver_errors.len() < 5 {
                    res.solver_errors.push(e);
                }
            }
            res.rng_requests_last = c.rng_log.iter().map(|x| x.0).collect();
            let taken = c.taken.clone();
            for k in script.len()..taken.len() {
                let mut alt = taken[..k].to_vec();
                alt.push(!taken[k]);
                work.push(alt);
            }
        });
        res.paths += 1;
    }
    res.wall_s = t0.elapsed().as_secs_f64();
    res
}

/// run `f` over all items on `threads` worker threads, preserving order of results
pub fn par_map<P: Sync, R: Send>(items: &[P], threads: usize, f: &(dyn Fn(&P) -> R + Sync)) -> Vec<R> {
    let next = AtomicUsize::new(0);
    let out: Mutex<Vec<Option<R>>> = Mutex::new((0..items.len()).map(|_| None).collect());
    std::thread::scope(|s| {
        for _ in 0..threads.max(1) {
            s.spawn(|| {
                loop {
                    let i = next.fetch_add(1, Ordering::SeqCst);
                    if i >= items.len() {
                        break;
                    }
                    let r = f(&items[i]);
                    out.lock().unwrap()[i] = Some(r);
                }
                symcore::shutdown();
            });
        }
    });
    out.into_inner().unwrap().into_iter().map(|x| x.expect("worker result")).collect()
}
