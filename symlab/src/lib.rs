pub mod conc;
pub mod driver;
pub mod report;
pub mod sym;
pub use conc::ConcLab;
pub use driver::*;
pub use sym::{SymBridge, SymLab};
