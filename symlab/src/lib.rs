pub mod conc;
pub mod driver;
pub mod report;
pub mod sym;
pub use conc::ConcLab;
pub use driver::*;
pub use sym::{SymBridge, SymLab};

/// root of the verification tree (the directory holding `check`); `VERIF_ROOT` overrides
pub fn root() -> String {
    std::env::var("VERIF_ROOT").unwrap_or_else(|_| "/verif".to_string())
}
