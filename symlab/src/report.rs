//! Aggregation of case results, classification of failures by replay on the real code,
//! evidence file.
use crate::driver::{add_stats, CaseResult};
use scen::Params;
use serde_json::json;
use std::collections::BTreeMap;

pub struct MetaView<'a> {
    pub functions: &'a [&'a str],
    pub bounds: &'a str,
    pub stubs: &'a [&'a str],
    pub outside: &'a [&'a str],
    pub assumptions: &'a [&'a str],
    pub engine: &'a str,
}

/// concrete run of a scenario case on a real ciphersuite: (order, prop, params, seed, model) -> (checks, failures, suite)
pub type RealRun<'a> = &'a (dyn Fn(&str, &str, &Params, u64, &[(String, String)]) -> (u64, Vec<String>, String) + Sync);

pub struct ReportArgs<'a> {
    pub prop: &'a str,
    pub tier: &'a str,
    pub seed: u64,
    pub thorough: bool,
    pub out: &'a str,
    pub orders: Vec<&'a str>,
    pub validation_suites: Vec<&'a str>,
    pub max_paths: u64,
    pub wall_start: std::time::Instant,
    pub extra_inconclusive: Vec<String>,
    pub extra_coverage: serde_json::Value,
}

fn load_known(prop: &str) -> Vec<(String, String)> {
    let mut out = vec![];
    if let Ok(s) = std::fs::read_to_string(format!("{}/known_findings.json", crate::root())) {
        if let Ok(v) = serde_json::from_str::<serde_json::Value>(&s) {
            for f in v["findings"].as_array().cloned().unwrap_or_default() {
                if f["property"].as_str() == Some(prop) {
                    out.push((f["status"].as_str().unwrap_or("").to_string(), f["match"].as_str().unwrap_or("\u{0}").to_string()));
                }
            }
        }
    }
    out
}

/// returns the process exit code
pub fn finish(args: ReportArgs, m: MetaView, cases: &[Params], items: &[(usize, &str, Params)], results: &[CaseResult], real_run_on: RealRun) -> i32 {
    let prop = args.prop.to_string();
    let tier = args.tier;
    let t0 = args.wall_start;
    let orders = args.orders.clone();
    let max_paths = args.max_paths;
    // ---- aggregate
    let mut total = symcore::Stats::default();
    let mut paths = 0u64;
    let mut failures: Vec<(usize, symcore::Failure)> = vec![];
    let mut truncated = 0;
    let mut samples = vec![];
    let mut smt_samples = vec![];
    let mut assumptions: Vec<String> = vec![];
    let mut solver_errors = vec![];
    for (k, r) in results.iter().enumerate() {
        add_stats(&mut total, &r.stats);
        paths += r.paths;
        if r.truncated {
            truncated += 1;
        }
        for f in &r.failures {
            failures.push((k, f.clone()));
        }
        if samples.len() < 10 {
            let few = samples.len() < 2;
            for o in r.sample_obligations.iter().filter(|o| o.rule != "ST" || few).take(4) {
                samples.push(json!({"case": r.desc, "rule": o.rule, "obligation": o.label, "detail": o.detail, "discharged": o.ok}));
            }
        }
        if smt_samples.len() < 2 {
            smt_samples.extend(r.sample_smt.iter().take(1).cloned());
        }
        for a in &r.assumptions {
            // strip case-specific labels to keep the list short
            let key: String = a.chars().take(90).collect();
            if assumptions.len() < 30 && !assumptions.contains(&key) {
                assumptions.push(key);
            }
        }
        solver_errors.extend(r.solver_errors.iter().cloned());
    }

    // ---- concrete validation of the encoding on the real suites
    let nval = if args.thorough { 96 } else { 24 }.min(cases.len());
    let mut validated = 0u64;
    let mut conc_unusable = 0u64;
    let mut val_checks = 0u64;
    let mut conc_failures: Vec<(usize, String, Vec<String>, u64)> = vec![];
    if nval > 0 {
        let step = (cases.len() / nval).max(1);
        let suites: Vec<&str> = args.validation_suites.clone();
        // the concrete runs are independent of each other: spread over the cores
        let picks: Vec<(usize, usize)> = (0..cases.len()).step_by(step).take(nval).enumerate().collect();
        let threads = std::thread::available_parallelism().map(|n| n.get()).unwrap_or(8);
        let outs = crate::driver::par_map(&picks, threads, &|(j, ci): &(usize, usize)| {
            let order = suites[*j % suites.len()];
            let seed = args.seed.wrapping_mul(1000).wrapping_add(*j as u64);
            real_run_on(order, &prop, &cases[*ci], seed, &[])
        });
        for ((j, ci), (c, f, suite)) in picks.iter().copied().zip(outs.into_iter()) {
            let seed = args.seed.wrapping_mul(1000).wrapping_add(j as u64);
            if c == 0 && f.is_empty() {
                // a concrete run that checked nothing is no validation (e.g. the replay helper did not run)
                conc_unusable += 1;
                continue;
            }
            validated += 1;
            val_checks += c;
            if !f.is_empty() {
                conc_failures.push((ci, suite, f, seed));
            }
        }
    }

    // ---- classify failures: replay solver models on the real code
    let known = load_known(&prop);
    let mut violations = 0;
    let mut inconclusive = 0;
    let mut known_hits: Vec<String> = vec![];
    let mut reported: Vec<String> = vec![];
    std::fs::create_dir_all(format!("{}/replays", crate::root())).ok();
    let is_known = |label: &str| known.iter().any(|(st, m)| st == "open" && label.contains(m.as_str()));
    let mut replayed = 0u64;
    let mut fallback_done: Vec<usize> = vec![];
    for (k, f) in failures.iter() {
        if f.inconclusive {
            // the engine could not encode this case (e.g. a coefficient left the positional range).
            // That is no verdict — but the same scenario case is run on the real suite with concrete
            // values, and an obligation that fails there is a reproduced violation of the real code.
            if !fallback_done.contains(k) && fallback_done.len() < 8 {
                fallback_done.push(*k);
                let (_, order, p) = &items[*k];
                let seed = args.seed;
                let (_checks, cf, suite) = real_run_on(order, &prop, p, seed, &[]);
                replayed += 1;
                if !cf.is_empty() && !cf.iter().any(|c| is_known(c)) && reported.iter().filter(|r| r.starts_with("VIOLATION")).count() < 5 {
                    violations += 1;
                    let path = format!("{}/replays/{prop}-{}.json", crate::root(), violations);
                    let rj = json!({
                        "property": prop, "order": order, "seed": seed, "params": p.to_json(), "case": results[*k].desc,
                        "symbolic_failure": {"label": f.label, "detail": format!("engine could not encode the case ({}); the concrete run of the same case on the real suite fails", f.detail)},
                        "model": [], "concrete_failures_on_real_suite": cf, "suite": suite,
                        "replay_cmd": format!("./check {prop} --replay {path}"),
                    });
                    std::fs::write(&path, serde_json::to_string_pretty(&rj).unwrap()).ok();
                    reported.push(format!("VIOLATION property={prop} replay={path}"));
                    reported.push(format!("  engine inconclusive ({}: {}), concrete run of the same case on {suite} fails: {}", f.label, f.detail, cf.join("; ")));
                    continue;
                }
            }
            inconclusive += 1;
            if reported.len() < 10 {
                reported.push(format!("INCONCLUSIVE property={prop} case={} {}: {}", results[*k].desc, f.label, f.detail));
            }
            continue;
        }
        let (ci, order, p) = &items[*k];
        let _ = ci;
        // replay only the first few distinct labels (replays are cheap but output should stay readable)
        if reported.iter().filter(|r| r.starts_with("VIOLATION")).count() >= 5 {
            violations += 1;
            continue;
        }
        let seed = args.seed;
        let (checks, cf, suite) = real_run_on(order, &prop, p, seed, &f.model);
        replayed += 1;
        if cf.is_empty() {
            inconclusive += 1;
            reported.push(format!(
                "INCONCLUSIVE property={prop} case={} symbolic failure `{}` ({}) did not reproduce on {suite} ({checks} concrete obligations passed)",
                results[*k].desc, f.label, f.detail
            ));
            continue;
        }
        if is_known(&f.label) || cf.iter().any(|c| is_known(c)) {
            let line = format!("KNOWN-FINDING: property={prop} {}", f.label);
            if !known_hits.contains(&line) {
                known_hits.push(line);
            }
            continue;
        }
        violations += 1;
        let path = format!("{}/replays/{prop}-{}.json", crate::root(), violations);
        let rj = json!({
            "property": prop, "order": order, "seed": seed, "params": p.to_json(), "case": results[*k].desc,
            "symbolic_failure": {"label": f.label, "detail": f.detail},
            "model": f.model.iter().map(|(a, b)| json!([a, b])).collect::<Vec<_>>(),
            "concrete_failures_on_real_suite": cf, "suite": suite,
            "replay_cmd": format!("./check {prop} --replay {path}"),
        });
        std::fs::write(&path, serde_json::to_string_pretty(&rj).unwrap()).ok();
        reported.push(format!("VIOLATION property={prop} replay={path}"));
        reported.push(format!("  symbolic: {} — {}", f.label, f.detail));
        reported.push(format!("  reproduced on {suite}: {}", cf.join("; ")));
    }
    for (ci, suite, cf, seed) in conc_failures.iter() {
        if cf.iter().any(|c| is_known(c)) {
            let line = format!("KNOWN-FINDING: property={prop} {}", cf[0]);
            if !known_hits.contains(&line) {
                known_hits.push(line);
            }
            continue;
        }
        violations += 1;
        let path = format!("{}/replays/{prop}-conc-{}.json", crate::root(), violations);
        let order = match suite.as_str() {
            "frost-p256" => "p256",
            "frost-secp256k1" => "secp256k1",
            "frost-ed448" => "ed448",
            "frost-ed25519" => "ed25519-real",
            "frost-secp256k1-tr" => "secp256k1-tr",
            _ => "ed25519",
        };
        let rj = json!({"property": prop, "order": order, "seed": seed, "params": cases[*ci].to_json(), "model": [],
            "concrete_failures_on_real_suite": cf, "suite": suite});
        std::fs::write(&path, serde_json::to_string_pretty(&rj).unwrap()).ok();
        reported.push(format!("VIOLATION property={prop} replay={path}"));
        reported.push(format!("  concrete run on {suite}: {}", cf.join("; ")));
    }
    for e in args.extra_inconclusive.iter() {
        inconclusive += 1;
        reported.push(format!("INCONCLUSIVE property={prop}: {e}"));
    }
    if conc_unusable > 0 {
        inconclusive += 1;
        reported.push(format!("INCONCLUSIVE property={prop}: {conc_unusable} concrete validation run(s) on the real suite checked nothing (replay helper unavailable?)"));
    }
    if truncated > 0 {
        inconclusive += 1;
        reported.push(format!("INCONCLUSIVE property={prop}: {truncated} case(s) exceeded the path budget of {max_paths}"));
    }
    if !solver_errors.is_empty() {
        inconclusive += 1;
        reported.push(format!("INCONCLUSIVE property={prop}: solver error lines: {:?}", &solver_errors[..solver_errors.len().min(3)]));
    }
    // a case that stated no obligation at all proves nothing (early return of the scenario):
    // reported, so that a silently skipped case cannot pass for a verified one
    let vacuous: Vec<&str> = results.iter().filter(|r| r.stats.obligations == 0 && r.failures.is_empty()).map(|r| r.desc.as_str()).collect();
    if !vacuous.is_empty() {
        inconclusive += 1;
        reported.push(format!("INCONCLUSIVE property={prop}: {} case(s) stated no obligation (vacuous), e.g. {}", vacuous.len(), vacuous[0]));
    }
    if total.obligations == 0 {
        inconclusive += 1;
        reported.push(format!("INCONCLUSIVE property={prop}: no obligations were generated (vacuous run)"));
    }

    // ---- evidence
    let wall = t0.elapsed().as_secs_f64();
    let by_rule: BTreeMap<String, u64> = total.by_rule.iter().map(|(k, v)| (k.to_string(), *v)).collect();
    let q_hex: Vec<String> = orders.iter().map(|o| format!("{o}: 0x{}", symcore::order_hex(o))).collect();
    let ev = json!({
        "property_id": prop, "tier": tier, "seed": args.seed, "level": "model_checking",
        "coverage": {
            "states": paths.max(1), "transitions": (total.decisions_valid + total.decisions_infeasible + total.forks + total.assumed + total.obligations).max(1),
            "traces_validated_against_impl": validated + replayed,
            "samples": samples,
            "exhaustive": truncated == 0,
            "engine": m.engine,
            "functions_encoded": m.functions,
            "bounds": { "cases": cases.len(), "orders": orders, "tier": tier, "structure": m.bounds, "max_paths_per_case": max_paths },
            "scenario_cases": items.len(), "symbolic_paths": paths,
            "obligations": total.obligations, "discharged": total.discharged, "by_rule": by_rule,
            "branch_decisions": {"valid_by_solver": total.decisions_valid, "infeasible_by_solver": total.decisions_infeasible, "forks": total.forks, "generic_position_assumptions": total.assumed},
            "solver": {"binary": std::env::var("SYMFROST_Z3").unwrap_or("/usr/bin/z3".into()), "logic": "QF_NIA with (mod _ q)", "queries": total.z3_queries, "unsat": total.z3_unsat, "sat": total.z3_sat, "unknown": total.z3_unknown, "queries_resent_after_polynomial_normalisation": total.normalized_fallbacks,
                "cross_check": {"second_solver": std::env::var("SYMFROST_CROSS").unwrap_or("z3-new (5.1.0), thorough tier only".into()), "obligations_rechecked": total.cross_checked, "agree": total.cross_agree, "no_answer_within_cap": total.cross_unknown, "disagree": total.cross_disagree}},
            "solver_s": total.z3_ms / 1000.0,
            "q": q_hex,
            "uf_applications": total.uf_apps, "term_nodes": total.nodes, "path_models_confirmed_by_solver": total.worlds_confirmed, "naf_multiscalar_calls_decoded": total.naf_calls,
            "concrete_validation": {"runs_on_real_suites": validated, "concrete_obligations_checked": val_checks, "failed_runs": conc_failures.len()},
            "sample_smt": smt_samples,
            "stubs": m.stubs, "outside_claim": m.outside,
            "inconclusive_events": inconclusive, "known_findings_hit": known_hits, "extra": args.extra_coverage,
        },
        "assumptions": assumptions.iter().cloned().chain(m.assumptions.iter().map(|s| s.to_string())).collect::<Vec<_>>(),
        "wall_s": wall, "violations": violations,
    });
    if let Some(dir) = std::path::Path::new(&args.out).parent() {
        std::fs::create_dir_all(dir).ok();
    }
    std::fs::write(&args.out, serde_json::to_string_pretty(&ev).unwrap()).expect("write evidence");

    {
        let mut hist: BTreeMap<String, (u64, bool)> = BTreeMap::new();
        for (_, f) in failures.iter() {
            let e = hist.entry(f.label.clone()).or_insert((0, f.inconclusive));
            e.0 += 1;
        }
        for (l, (n, inc)) in hist.iter().take(25) {
            println!("  failure-label x{n}{}: {l}", if *inc { " [engine/inconclusive]" } else { "" });
        }
    }
    for l in &known_hits {
        println!("{l}");
    }
    for l in &reported {
        println!("{l}");
    }
    println!(
        "{prop} [{tier}] cases={} paths={} obligations={} discharged={} by_rule={:?} z3: {} queries ({} unsat, {} sat, {} unknown) {:.1}s solver; validated {} concrete runs; wall {:.1}s",
        items.len(), paths, total.obligations, total.discharged, total.by_rule, total.z3_queries, total.z3_unsat, total.z3_sat, total.z3_unknown, total.z3_ms / 1000.0, validated, wall
    );
    if violations > 0 {
        return 1;
    }
    if inconclusive > 0 {
        return 2;
    }
    0
}
