//! Symbolic `Lab`: free inputs are variables, obligations are solver queries.
use core::convert::Infallible;
use core::marker::PhantomData;
use frost_core::{Ciphersuite, Element, Scalar};
use rand_core::{TryCryptoRng, TryRng};
use scen::lab::{Lab, Pol};
use symcore::{E, Outcome, Policy, S};

/// conversion between the ciphersuite's scalar/element types and symcore handles
pub trait SymBridge: Ciphersuite {
    fn s_in(s: S) -> Scalar<Self>;
    fn s_out(s: Scalar<Self>) -> S;
    fn e_in(e: E) -> Element<Self>;
    fn e_out(e: Element<Self>) -> E;
}

pub struct SymRng;
impl TryRng for SymRng {
    type Error = Infallible;
    fn try_next_u32(&mut self) -> Result<u32, Infallible> {
        let mut b = [0u8; 4];
        self.try_fill_bytes(&mut b)?;
        Ok(u32::from_le_bytes(b))
    }
    fn try_next_u64(&mut self) -> Result<u64, Infallible> {
        let mut b = [0u8; 8];
        self.try_fill_bytes(&mut b)?;
        Ok(u64::from_le_bytes(b))
    }
    fn try_fill_bytes(&mut self, dst: &mut [u8]) -> Result<(), Infallible> {
        let v = symcore::rng_draw(dst.len());
        dst.copy_from_slice(&v);
        Ok(())
    }
}
impl TryCryptoRng for SymRng {}

pub struct SymLab<C: SymBridge> {
    rng: SymRng,
    adv: Vec<u32>,
    guards: Vec<symcore::LabelGuard>,
    pub notes: Vec<String>,
    _c: PhantomData<C>,
}
impl<C: SymBridge> Default for SymLab<C> {
    fn default() -> Self {
        SymLab { rng: SymRng, adv: vec![], guards: vec![], notes: vec![], _c: PhantomData }
    }
}

fn pol(p: Pol) -> Policy {
    match p {
        Pol::Assume => Policy::Assume,
        Pol::Fork => Policy::Fork,
        Pol::ForkNonZero => Policy::ForkNonZero,
        Pol::ForkAdv => Policy::ForkAdv,
    }
}
fn unpol(p: Policy) -> Pol {
    match p {
        Policy::Assume => Pol::Assume,
        Policy::Fork => Pol::Fork,
        Policy::ForkNonZero => Pol::ForkNonZero,
        Policy::ForkAdv => Pol::ForkAdv,
    }
}

impl<C: SymBridge> Lab<C> for SymLab<C> {
    type Rng = SymRng;
    fn rng(&mut self) -> &mut SymRng {
        &mut self.rng
    }
    fn symbolic(&self) -> bool {
        true
    }
    fn scalar(&mut self, name: &str) -> Scalar<C> {
        C::s_in(S::var(name))
    }
    fn nz_scalar(&mut self, name: &str) -> Scalar<C> {
        let s = S::var(name);
        symcore::assume_nonzero(s, &format!("{name} is non-zero"));
        C::s_in(s)
    }
    fn adv_scalar(&mut self, name: &str) -> Scalar<C> {
        let s = S::var(name);
        self.adv.push(s.0);
        symcore::with(|c| c.adv_atoms.push(s.0));
        symcore::prefer_pivot(s);
        C::s_in(s)
    }
    fn adv_scalar_among(&mut self, name: &str, candidates: &[Scalar<C>]) -> Scalar<C> {
        let v = self.adv_scalar(name);
        let cs: Vec<u32> = candidates.iter().map(|c| C::s_out(*c).0).collect();
        let vi = C::s_out(v).0;
        symcore::with(|c| c.adv_candidates.push((name.to_string(), vi, cs)));
        v
    }
    fn adv_element(&mut self, name: &str) -> Element<C> {
        let s = S::var(&format!("dlog({name})"));
        self.adv.push(s.0);
        symcore::with(|c| c.adv_atoms.push(s.0));
        symcore::prefer_pivot(s);
        symcore::assume_nonzero(s, &format!("{name} is not the identity (decoding rejects the identity)"));
        C::e_in(E::from_dlog(s))
    }
    fn message(&mut self, name: &str) -> Vec<u8> {
        symcore::msg_block(name).to_vec()
    }
    fn eq_s(&mut self, a: Scalar<C>, b: Scalar<C>, what: &str) -> bool {
        symcore::prove_eq(C::s_out(a), C::s_out(b), what)
    }
    fn eq_e(&mut self, a: Element<C>, b: Element<C>, what: &str) -> bool {
        symcore::prove_eq(C::e_out(a).dlog(), C::e_out(b).dlog(), what)
    }
    fn ne_s(&mut self, a: Scalar<C>, b: Scalar<C>, what: &str) -> bool {
        symcore::prove_ne(C::s_out(a), C::s_out(b), what)
    }
    fn ne_e(&mut self, a: Element<C>, b: Element<C>, what: &str) -> bool {
        symcore::prove_ne(C::e_out(a).dlog(), C::e_out(b).dlog(), what)
    }
    fn check(&mut self, cond: bool, what: &str) -> bool {
        symcore::check(cond, what)
    }
    fn enter(&mut self, label: &str) {
        self.guards.push(symcore::enter(label));
    }
    fn leave(&mut self) {
        self.guards.pop();
    }
    fn set_policy(&mut self, p: Pol) -> Pol {
        unpol(symcore::set_policy(pol(p)))
    }
    fn mark(&mut self) -> u64 {
        ((symcore::n_decisions() as u64) << 32) | symcore::mark() as u64
    }
    fn expect_reject(&mut self, mark: u64, accepted: bool, what: &str) -> bool {
        if accepted {
            return symcore::with(|c| {
                c.check(false, &format!("{what}: input was accepted where rejection is required"))
            });
        }
        let dfrom = (mark >> 32) as usize;
        let ds = symcore::decisions_since(dfrom);
        // Every generic-position assumption ("these two values differ") the real code's
        // comparisons needed during this call must be justified by rule GR. Comparisons the
        // solver refuted outright (EX), forks (both sides explored), stated preconditions and
        // comparisons settled earlier on the path need no further argument.
        let assumed: Vec<&symcore::Decision> = ds.iter().filter(|d| d.outcome == Outcome::AssumedNe).collect();
        if assumed.is_empty() {
            let refuted = ds.iter().any(|d| d.outcome == Outcome::Infeasible);
            return symcore::with(|c| {
                if refuted {
                    c.record("EX", what, true, "the rejecting comparison inside the real code was refuted under PC (unit multiple of a non-zero quantity; identity proved by the solver)".into());
                } else {
                    c.record("ST", what, true, "rejected on structure, on a stated precondition, or by a comparison settled earlier on this path".into());
                }
                true
            });
        }
        let adv = self.adv.clone();
        let mut ok = true;
        for d in assumed {
            let resid = S(d.a) - S(d.b);
            ok &= symcore::prove_gr(resid, 0, &adv, what).is_some();
        }
        ok
    }
    fn ne_generic_s(&mut self, a: Scalar<C>, b: Scalar<C>, what: &str) -> bool {
        let resid = C::s_out(a) - C::s_out(b);
        let adv = self.adv.clone();
        symcore::prove_gr(resid, 0, &adv, what).is_some()
    }
    fn ne_generic_e(&mut self, a: Element<C>, b: Element<C>, what: &str) -> bool {
        let resid = C::e_out(a).dlog() - C::e_out(b).dlog();
        let adv = self.adv.clone();
        symcore::prove_gr(resid, 0, &adv, what).is_some()
    }
    fn holds_eq_s(&mut self, a: Scalar<C>, b: Scalar<C>) -> Option<bool> {
        let (a, b) = (C::s_out(a), C::s_out(b));
        let r = symcore::with(|c| {
            if a.0 == b.0 {
                return Some(true);
            }
            if !c.differs_in_some_world(a.0, b.0) {
                return match c.z3_valid_eq(a.0, b.0, c.cfg.final_timeout_ms) {
                    Some(true) => Some(true),
                    _ => None,
                };
            }
            let snap = c.snapshot_worlds();
            let d = c.sub(a.0, b.0);
            let feasible = c.try_add_equation(d);
            c.restore_worlds(snap);
            if feasible {
                return None;
            }
            match c.z3_sat_eq(a.0, b.0, c.cfg.final_timeout_ms) {
                Some(false) => Some(false),
                _ => None,
            }
        });
        symcore::with(|c| {
            let what = match r {
                Some(true) => "path condition entails equality (solver: negation unsat)",
                Some(false) => "path condition entails disequality (solver / rule EX)",
                None => "undetermined under the path condition",
            };
            let det = format!("{} vs {}: {what}", c.describe(a.0, 2), c.describe(b.0, 2));
            c.record("EN", "entailment query on the current path", true, det);
        });
        if r.is_none() {
            // neither outcome is entailed (this does not happen on the unchanged tree, where the
            // code under test has itself compared the two): explore both, so that a failing
            // obligation downstream comes with a model in which the relation is pinned
            let old = symcore::set_policy(symcore::Policy::Fork);
            let eq = a == b;
            symcore::set_policy(old);
            return Some(eq);
        }
        r
    }
    fn holds_eq_e(&mut self, a: Element<C>, b: Element<C>) -> Option<bool> {
        let (a, b) = (C::e_out(a).dlog(), C::e_out(b).dlog());
        self.holds_eq_s(C::s_in(a), C::s_in(b))
    }
    fn assume_ne_s(&mut self, a: Scalar<C>, b: Scalar<C>, why: &str) {
        symcore::assume_ne(C::s_out(a), C::s_out(b), why)
    }
    fn assume_ne_e(&mut self, a: Element<C>, b: Element<C>, why: &str) {
        symcore::assume_ne(C::e_out(a).dlog(), C::e_out(b).dlog(), why)
    }
    fn rng_requests(&self) -> Vec<usize> {
        symcore::with(|c| c.rng_log.iter().map(|x| x.0).collect())
    }
    fn jointly_uniform(&mut self, values: &[Scalar<C>], what: &str) -> bool {
        let vals: Vec<u32> = values.iter().map(|v| C::s_out(*v).0).collect();
        symcore::with(|c| {
            // the draws the values depend on
            let draws: Vec<u32> = c.rng_log.iter().map(|x| x.1).collect();
            let mut cols: Vec<u32> = vec![];
            for v in vals.iter() {
                for a in c.deep_support(*v).iter() {
                    if draws.contains(a) && !cols.contains(a) {
                        cols.push(*a);
                    }
                }
            }
            // Jacobian by substitution; slopes are constants where the dependence is affine
            let mut numeric = false;
            let mut rows: Vec<Vec<symcore::U>> = vec![];
            for v in vals.iter() {
                let mut row = vec![];
                for d in cols.iter() {
                    let d1 = c.add(*d, 1);
                    let shifted = c.subst(*v, *d, d1);
                    let slope = c.sub(shifted, *v);
                    // a constant: the same value in every model of the path, confirmed by the solver
                    let k0 = c.eval(0, slope);
                    let same = (1..c.cfg.n_worlds).all(|w| c.eval(w, slope) == k0);
                    let kc = c.cst(k0);
                    let is_const = c.const_of(slope).is_some() || (same && c.z3_valid_eq(slope, kc, c.cfg.final_timeout_ms) == Some(true));
                    if !is_const {
                        // a non-affine (e.g. hashed) dependence on the draw: the finite difference in the
                        // witness model stands in for the slope (generic rank; noted in the detail)
                        numeric = true;
                    }
                    row.push(k0);
                }
                rows.push(row);
            }
            // rank over Z_q by Gaussian elimination
            let m = c.m.clone();
            let (nr, nc) = (rows.len(), cols.len());
            let mut rank = 0usize;
            let mut col = 0usize;
            while rank < nr && col < nc {
                if let Some(piv) = (rank..nr).find(|r| !rows[*r][col].is_zero()) {
                    rows.swap(rank, piv);
                    let inv = m.inv(&rows[rank][col]).expect("non-zero mod prime");
                    for j in col..nc {
                        rows[rank][j] = m.mul(&rows[rank][j], &inv);
                    }
                    for r in 0..nr {
                        if r != rank && !rows[r][col].is_zero() {
                            let f = rows[r][col];
                            for j in col..nc {
                                let t = m.mul(&f, &rows[rank][j]);
                                rows[r][j] = m.sub(&rows[r][j], &t);
                            }
                        }
                    }
                    rank += 1;
                }
                col += 1;
            }
            let ok = rank == nr;
            let det = format!("{nr} value(s) depend on {nc} draw(s) of the caller's source ({}); Jacobian rank over Z_q = {rank}", if numeric { "not everywhere affine: finite differences in the witness model" } else { "affinely, constant slopes confirmed by the solver" });
            c.record("ID", what, ok, det.clone());
            if !ok {
                c.fail(what, det, false);
            }
            ok
        })
    }
    fn jointly_uniform_e(&mut self, values: &[Element<C>], what: &str) -> bool {
        let v: Vec<Scalar<C>> = values.iter().map(|e| C::s_in(C::e_out(*e).dlog())).collect();
        self.jointly_uniform(&v, what)
    }
    fn depends_on_draw(&mut self, out: Scalar<C>, k: usize, what: &str) -> bool {
        let out = C::s_out(out);
        symcore::with(|c| {
            let Some((_, v)) = c.rng_log.get(k).copied() else {
                return c.check(false, &format!("{what}: draw {k} exists"));
            };
            let v1 = c.add(v, 1);
            let shifted = c.subst(out.0, v, v1);
            c.prove_ne(shifted, out.0, what)
        })
    }
    fn draw_scalar(&mut self, k: usize) -> Option<Scalar<C>> {
        symcore::with(|c| c.rng_log.get(k).map(|x| x.1)).map(|v| C::s_in(S(v)))
    }
    fn draw_bytes(&mut self, k: usize) -> Option<Vec<u8>> {
        symcore::with(|c| {
            let (len, v) = c.rng_log.get(k).copied()?;
            let mut out = vec![0u8; len];
            for (j, ch) in out.chunks_mut(32).enumerate() {
                if ch.len() < 32 {
                    break;
                }
                let vj = if j == 0 { v } else { c.var(&format!("rng#{k}.{j}")) };
                ch.copy_from_slice(&symcore::block32(symcore::TAG_R, vj));
            }
            Some(out)
        })
    }
    fn all_distinct_generic(&mut self, xs: &[Scalar<C>], what: &str) -> bool {
        let hs: Vec<S> = xs.iter().map(|x| C::s_out(*x)).collect();
        let all_hash_atoms = symcore::with(|c| hs.iter().all(|h| matches!(c.nodes[h.0 as usize], symcore::Node::Uf(..))));
        if all_hash_atoms {
            // distinct applications of an uninterpreted hash differ except with probability 1/q
            // (rule GR with slope 1 in either output); identical applications are equal
            let mut seen = std::collections::HashMap::new();
            for (i, h) in hs.iter().enumerate() {
                if let Some(j) = seen.insert(h.0, i) {
                    return symcore::with(|c| {
                        let det = format!("values number {j} and {i} are the same hash application {}", c.describe(h.0, 2));
                        c.record("GR", what, false, det.clone());
                        c.fail(what, det, false);
                        false
                    });
                }
            }
            return symcore::with(|c| {
                c.record("GR", what, true, format!("{} pairwise distinct hash applications", hs.len()));
                true
            });
        }
        let mut ok = true;
        for i in 0..xs.len() {
            for j in (i + 1)..xs.len() {
                ok &= self.ne_generic_s(xs[i], xs[j], what);
            }
        }
        ok
    }
    fn eq_bytes(&mut self, a: &[u8], b: &[u8], what: &str) -> bool {
        symcore::with(|c| {
            let (sa, aa) = c.parse_pieces(a);
            let (sb, ab) = c.parse_pieces(b);
            if sa != sb || aa.len() != ab.len() {
                let det = format!("byte strings differ in layout/literal bytes: {} vs {} pieces, lengths {} vs {}", sa.len(), sb.len(), a.len(), b.len());
                c.record("ID", what, false, det.clone());
                c.fail(what, det, false);
                return false;
            }
            let mut ok = true;
            for (x, y) in aa.iter().zip(ab.iter()) {
                ok &= c.prove_eq(*x, *y, what);
            }
            if aa.is_empty() {
                c.record("ST", what, true, "identical literal bytes".into());
            }
            ok
        })
    }
    fn cmp_scalars(&mut self, a: Scalar<C>, b: Scalar<C>) -> core::cmp::Ordering {
        match (C::s_out(a).const_val(), C::s_out(b).const_val()) {
            (Some(x), Some(y)) => x.cmp(&y),
            _ => {
                symcore::with(|c| c.fail("cmp_scalars", "numeric comparison of symbolic scalars is outside the engine".into(), true));
                core::cmp::Ordering::Equal
            }
        }
    }
    fn watch_serialization(&mut self, on: bool) {
        symcore::with(|c| {
            c.ser_log_on = on;
            if on {
                c.ser_log.clear();
            }
        })
    }
    fn leaked(&mut self, rendered: &str, secrets: &[Scalar<C>]) -> bool {
        let secs: Vec<S> = secrets.iter().map(|x| C::s_out(*x)).collect();
        let text = rendered.to_lowercase();
        symcore::with(|c| {
            let mut secret_atoms = std::collections::BTreeSet::new();
            for s in &secs {
                secret_atoms.extend(c.deep_support(s.0));
            }
            for (_, t) in c.ser_log.clone() {
                let ds = c.deep_support(t);
                if ds.iter().any(|a| secret_atoms.contains(a)) {
                    return true;
                }
            }
            // the block encoding of a secret (or of its representative) in hex
            for s in &secs {
                let r = c.repr(s.0);
                for h in [s.0, r] {
                    let b = symcore::block32(symcore::TAG_S, h);
                    let hex: String = b.iter().map(|x| format!("{x:02x}")).collect();
                    if text.contains(&hex) {
                        return true;
                    }
                }
            }
            false
        })
    }
    fn note(&mut self, s: &str) {
        self.notes.push(s.to_string());
    }
}

/// bridge for the Taproot suite compiled against the stub k256 (workspace B only)
#[cfg(feature = "k256-bridge")]
impl SymBridge for frost_secp256k1_tr::Secp256K1Sha256TR {
    fn s_in(s: S) -> k256::Scalar {
        k256::Scalar(s)
    }
    fn s_out(s: k256::Scalar) -> S {
        s.0
    }
    fn e_in(e: E) -> k256::ProjectivePoint {
        k256::ProjectivePoint(e)
    }
    fn e_out(e: k256::ProjectivePoint) -> E {
        e.0
    }
}
