#!/bin/bash
# usage: confirm_mutant.sh <ID>   — independent confirmation of a seeded change produced in /tmp/mut/<ID>
# (1) patch applies to pristine HEAD~fix and compiles, (2) whole existing suite green with the patch,
# (3) demo fails with the patch, (4) demo passes without it.
ID=$1
W=/tmp/mut/$ID
O=/tmp/mut/$ID-out
export CARGO_NET_OFFLINE=true CARGO_TARGET_DIR=/tmp/mut/target-confirm
LOG=$O/confirm.log
: > $LOG
cd $W || exit 9
# normalise: pristine tree + patch + demo
DEMO=$(git status --porcelain | grep '^??' | awk '{print $2}' | grep -v '^target' | head -1)
# (no git stash: the stash list is shared with /repo)
[ -n "$DEMO" ] && [ -f "$DEMO" ] && cp "$DEMO" /tmp/mut/$ID-demo-keep.rs
git checkout -q -- .
git apply $O/patch.diff || { echo "PATCH DOES NOT APPLY" >> $LOG; exit 1; }
[ -n "$DEMO" ] && [ -f /tmp/mut/$ID-demo-keep.rs ] && mv /tmp/mut/$ID-demo-keep.rs "$DEMO"
# locate demo destination from the untracked file left by the agent, else from header of demo.rs
if [ -z "$DEMO" ]; then DEMO=$(grep -oE '[a-z0-9-]+/tests/[a-z_0-9]+\.rs' $O/demo.rs | head -1); fi
[ -f "$DEMO" ] || cp $O/demo.rs $DEMO
CRATE=$(echo $DEMO | cut -d/ -f1); TEST=$(basename $DEMO .rs)
echo "demo=$DEMO crate=$CRATE test=$TEST" >> $LOG
# (2) suite with patch, demo moved away
mv $DEMO /tmp/mut/$ID-demo.rs
cargo test --workspace --offline --no-fail-fast > $O/suite_with_patch.log 2>&1
S=$(grep -c "^test result: ok" $O/suite_with_patch.log); F=$(grep -cE "^test result: FAILED|^error" $O/suite_with_patch.log)
echo "suite_with_patch: ok_lines=$S failed_lines=$F" >> $LOG
mv /tmp/mut/$ID-demo.rs $DEMO
# (3) demo with patch
cargo test -p $CRATE --test $TEST --offline > $O/demo_with_patch.log 2>&1; echo "demo_with_patch_exit=$?" >> $LOG
# (4) demo without patch
git apply -R $O/patch.diff
cargo test -p $CRATE --test $TEST --offline > $O/demo_without_patch.log 2>&1; echo "demo_without_patch_exit=$?" >> $LOG
git apply $O/patch.diff
cat $LOG
