"""E2 runner: Kani harnesses (out-of-tree crate /verif/kani over /repo's current sources)."""
import json, os, re, shutil, subprocess, time

VERIF = os.path.dirname(os.path.dirname(os.path.abspath(__file__)))
BUILD = os.path.join(VERIF, ".build")
KANI = os.path.join(VERIF, "kani")

# harness -> (what it decides, real functions encoded, input bound)
HARNESSES = {
 "k2_id_secp256k1": ("Identifier::try_from(n: u16) for frost-secp256k1 serialises to the 32-byte big-endian integer n, for every n", "frost_core::Identifier::try_from<u16>, Identifier::serialize, k256 scalar add/to_bytes", "all 65535 non-zero u16"),
 "k2_id_secp256k1_tr": ("same for frost-secp256k1-tr", "frost_core::Identifier::try_from<u16>", "all non-zero u16"),
 "k2_id_p256": ("same for frost-p256", "frost_core::Identifier::try_from<u16>, p256 scalar add/to_bytes", "all non-zero u16"),
 "k2_id_toy16": ("generic double-and-add of Identifier::try_from on Z_65537: identifier scalar = n; zero refused", "frost_core::Identifier::try_from<u16>", "all u16"),
 "k2_cmp_secp256k1": ("Identifier::cmp = numeric order, frost-secp256k1, arbitrary pairs of canonical 32-byte encodings", "frost_core::Identifier::cmp, Identifier::deserialize, k256 Scalar::from_repr", "all pairs of 32-byte strings"),
 "k2_cmp_p256": ("same for frost-p256", "frost_core::Identifier::cmp", "all pairs of 32-byte strings"),
 "k2_cmp_toy16": ("Identifier::cmp = numeric order on the 3-byte carrier field", "frost_core::Identifier::cmp", "all pairs of values in [1, 65536]"),
 "k2_zero_secp256k1": ("zero identifier rejected, accepted identifier re-encodes to input (frost-secp256k1)", "frost_core::Identifier::deserialize/serialize", "all 32-byte strings"),
 "k2_zero_p256": ("same for frost-p256", "frost_core::Identifier::deserialize/serialize", "all 32-byte strings"),
 "k3_secp256k1_scalar": ("scalar encoding accepted iff value < n, accepted => re-encodes to itself (frost-secp256k1)", "Secp256K1ScalarField::deserialize/serialize, k256::Scalar::from_repr/to_bytes", "all 2^256 strings"),
 "k3_secp256k1_tr_scalar": ("same for frost-secp256k1-tr", "Secp256K1ScalarField::deserialize/serialize (tr)", "all 2^256 strings"),
 "k3_p256_scalar": ("same for frost-p256", "P256ScalarField::deserialize/serialize, p256::Scalar::from_repr/to_bytes", "all 2^256 strings"),
 "k3_ed448_scalar": ("Ed448 scalar encoding: accepted => re-encodes to itself (57 bytes)", "Ed448ScalarField::deserialize/serialize, ed448-goldilocks from_canonical_bytes/to_bytes_rfc_8032", "all 2^456 strings"),
 "k4_p256_tag": ("frost-p256 element decoding rejects every leading byte other than 0x02/0x03 (in front of the generator's x), the SEC1 compact tag 0x05 included", "P256Group::deserialize, p256 Sec1Point::from_bytes / AffinePoint::from_sec1_point", "254 tag bytes, concrete x; probe 0x05 replayed natively first"),
 "k4_secp256k1_tag": ("same for frost-secp256k1", "Secp256K1Group::deserialize", "254 tag bytes, concrete x"),
 "k4_secp256k1_tr_tag": ("same for frost-secp256k1-tr", "Secp256K1Group::deserialize (tr)", "254 tag bytes, concrete x"),
 "k4_ed25519_identity_y1": ("frost-ed25519 element decoding rejects every 32-byte string whose y-coordinate is 1 modulo p (the identity: y in {1, p+1}, either sign bit) — point decompression replaced by a contract model under Kani, real decompression in the native replay", "Ed25519Group::deserialize (real wrapper, point equality, error mapping); stubs: CompressedEdwardsY::decompress, EdwardsPoint::is_torsion_free", "all 2^256 strings, case y = 1 (mod p)"),
 "k4_ed25519_identity_nopoint": ("same wrapper, strings the contract model maps to 'not a point': always an error, never the identity", "Ed25519Group::deserialize", "all 2^256 strings, case y != 1, decompress = None"),
 "k4_ed25519_identity_point": ("same wrapper, strings the contract model maps to a prime-order point: an accepted element is never the identity", "Ed25519Group::deserialize", "all 2^256 strings, case y != 1, decompress = Some(B)"),
 "k4_tr_signature_length": ("Taproot signature decoding rejects every length 0..=80 except 64, never panics", "Secp256K1Sha256TR::deserialize_signature", "lengths 0..=80 of a zero buffer"),
 "k5_keypackage_decode": ("postcard decoding of KeyPackage from an arbitrary string: no panic, accepted => version byte 0", "frost_core::keys::KeyPackage::deserialize, serialization::Deserialize, Header/version/ciphersuite-id checks, postcard", "all strings of length <= 12 (toy encodings)"),
 "k5_keypackage_roundtrip": ("KeyPackage encode/decode round-trips for every min_signers and payload", "KeyPackage::serialize/deserialize", "all u16 min_signers, all toy payloads"),
 "k5_dkg_round1_secret_roundtrip": ("dkg round1 SecretPackage encode/decode round-trips for every (min,max)", "dkg::round1::SecretPackage::serialize/deserialize", "all u16 pairs"),
 "k5_dkg_round2_secret_roundtrip": ("dkg round2 SecretPackage encode/decode round-trips for every (min,max)", "dkg::round2::SecretPackage::serialize/deserialize", "all u16 pairs"),
 "k5_signature_decode": ("Signature::default_deserialize: wrong lengths rejected, accepted => canonical, no panic", "frost_core::Signature::deserialize/serialize", "all strings of length <= 4 (toy: 2-byte signatures)"),
 "k5_primitives_decode": ("SigningShare/VerifyingShare/Identifier/SigningKey decoding: wrong length, identity, zero id, zero key rejected; accepted => canonical", "SerializableScalar/SerializableElement::deserialize, Identifier::deserialize, SigningKey::deserialize", "all strings of length <= 3"),
 "k6_validate_num_of_signers": ("validate_num_of_signers refuses iff t<2 or n<2 or t>n", "frost_core::keys::validate_num_of_signers", "all 2^32 (min,max) pairs"),
 "k7_keypackage": ("KeyPackage: zeroize() and drop_in_place leave the signing share zero in the slot", "KeyPackage Zeroize/ZeroizeOnDrop", "all secret values (toy field)"),
 "k7_signing_share_and_key": ("SigningShare::zeroize; SigningKey wiped in place on drop", "SigningShare DefaultIsZeroes, SigningKey::drop", "all secret values"),
 "k7_secret_share": ("SecretShare: zeroize() wipes the secret; drop wipes it in place", "SecretShare Zeroize/ZeroizeOnDrop", "all secret values"),
 "k7_signing_nonces": ("SigningNonces: zeroize() and drop wipe both nonces in place", "SigningNonces Zeroize/ZeroizeOnDrop, Nonce::zeroize", "all nonce values"),
 "k7_dkg_round1_secret": ("dkg round1 SecretPackage: zeroize() leaves no coefficient; drop overwrites every coefficient (observed through Field::zero())", "dkg::round1::SecretPackage Zeroize/ZeroizeOnDrop, SerializableScalar::zeroize", "2 coefficients, all values"),
 "k7_dkg_round2": ("dkg round2 SecretPackage and Package: zeroize()/drop wipe the share", "dkg::round2::{SecretPackage,Package} Zeroize/ZeroizeOnDrop", "all secret values"),
}

# designated inputs replayed natively BEFORE the solver run of a harness: a decoder that lets the
# input through to curve arithmetic would drown CBMC (measured: 34 GB), so a probe that already
# fails on the real build is reported at once and the harness is not sent to the solver
PROBES = {
 "k4_p256_tag": ["05"],
 "k4_secp256k1_tag": ["05"],
 "k4_secp256k1_tr_tag": ["05"],
}

PLAN = {
 # property -> (quick harnesses, extra thorough harnesses)
 "C02": (["k2_id_secp256k1", "k2_id_secp256k1_tr", "k2_id_p256", "k2_id_toy16", "k2_cmp_secp256k1", "k2_cmp_p256", "k2_cmp_toy16"], []),
 "C06": (["k6_validate_num_of_signers"], []),
 "C12": (["k3_secp256k1_scalar", "k3_secp256k1_tr_scalar", "k3_p256_scalar", "k3_ed448_scalar", "k2_zero_secp256k1", "k2_zero_p256", "k4_tr_signature_length", "k4_p256_tag", "k4_secp256k1_tag", "k4_secp256k1_tr_tag",
          "k5_keypackage_decode", "k5_signature_decode", "k5_primitives_decode", "k5_keypackage_roundtrip", "k4_ed25519_identity_y1"], ["k5_dkg_round2_secret_roundtrip", "k4_ed25519_identity_nopoint", "k4_ed25519_identity_point"]),
 "C13": ([], ["k5_keypackage_roundtrip", "k5_dkg_round2_secret_roundtrip"]),
 "C14": (["k5_keypackage_decode", "k5_signature_decode", "k5_primitives_decode", "k4_tr_signature_length", "k6_validate_num_of_signers"], []),
 "C20": (["k7_keypackage", "k7_signing_share_and_key", "k7_secret_share", "k7_signing_nonces", "k7_dkg_round1_secret", "k7_dkg_round2"], []),
}


def split_output(out):
    """verdict text per harness, for the sequential and for the -j ("Thread k:") output format"""
    res = {}
    if re.search(r"(?m)^Thread \d+:", out):
        cur = {}
        tid = None
        for line in out.splitlines():
            m = re.match(r"^Thread (\d+): ?(.*)$", line)
            if m:
                tid = m.group(1)
                line = m.group(2)
                mm = re.match(r"Checking harness proofs::(\w+)\.\.\.", line)
                if mm:
                    cur[tid] = mm.group(1)
                    res.setdefault(cur[tid], "")
                    continue
            if line.startswith("Manual Harness Summary"):
                tid = None
            if tid is not None and tid in cur:
                res[cur[tid]] += line + "\n"
        return res
    sections = re.split(r"(?m)^Checking harness proofs::(\w+)\.\.\.", out)
    for i in range(1, len(sections), 2):
        res[sections[i]] = sections[i + 1]
    return res


def load_known(prop):
    try:
        v = json.load(open(os.path.join(VERIF, "known_findings.json")))
        return [(f.get("status", ""), f.get("match", "\0")) for f in v.get("findings", []) if f.get("property") == prop]
    except Exception:
        return []


def native_replay_bin():
    env = dict(os.environ, CARGO_NET_OFFLINE="true", CARGO_TARGET_DIR=os.path.join(BUILD, "kani-native"))
    shutil.copyfile("/repo/Cargo.lock", os.path.join(KANI, "Cargo.lock"))
    p = subprocess.run(["cargo", "build", "--quiet", "--bin", "replay"], cwd=KANI, env=env, stdout=subprocess.PIPE, stderr=subprocess.STDOUT, text=True)
    if p.returncode != 0:
        print(p.stdout[-3000:])
        return None
    return os.path.join(BUILD, "kani-native", "debug", "replay")


def replay(binpath, harness, hexvals):
    p = subprocess.run([binpath, harness, hexvals], stdout=subprocess.PIPE, stderr=subprocess.STDOUT, text=True, timeout=600)
    return p.returncode, p.stdout.strip()


def run(prop, tier, seed, out_path, only=None):
    """returns exit code 0/1/2; writes evidence part to out_path"""
    t0 = time.time()
    quick, extra = PLAN.get(prop, ([], []))
    hs = list(quick) + (list(extra) if tier == "thorough" else [])
    if only:
        hs = [h for h in hs if h in only]
    if not hs:
        return None
    lines = []
    binpath = native_replay_bin()
    if binpath is None:
        print(f"INCONCLUSIVE property={prop}: the E2 harness crate does not build against /repo")
        return 2
    env = dict(os.environ, CARGO_NET_OFFLINE="true", RUSTFLAGS="--cfg miri")
    cap = 3000 if tier == "thorough" else 1500
    def kani(harnesses, jobs, playback, tag):
        cmd = ["timeout", str(cap), "cargo", "kani", "-Z", "stubbing", "--exact", "--target-dir", os.path.join(BUILD, "kani"), "--output-format", "terse"]
        if playback:
            cmd += ["-Z", "concrete-playback", "--concrete-playback=print"]
        elif jobs > 1:
            cmd += ["-j", str(jobs)]
        for h in harnesses:
            cmd += ["--harness", "proofs::" + h]
        p = subprocess.run(cmd, cwd=KANI, env=env, stdout=subprocess.PIPE, stderr=subprocess.STDOUT, text=True)
        open(os.path.join(BUILD, f"kani-{prop}{tag}.log"), "w").write(p.stdout)
        return p.stdout

    probe_fail = {}
    replays = 0
    for h in hs:
        for pv in PROBES.get(h, []):
            rc, msg = replay(binpath, h, pv)
            replays += 1
            if rc == 1:
                probe_fail[h] = (pv, msg)
                break
    run_hs = [h for h in hs if h not in probe_fail]
    out = kani(run_hs, min(8, len(run_hs)), False, "") if run_hs else ""
    res = split_output(out)
    # counterexample values: second, single-threaded pass over the failing harnesses only
    failing = [h for h in run_hs if h in res and "VERIFICATION:- FAILED" in res[h] and "unwinding assertion" not in res[h] and "out of memory" not in res[h] and "CBMC failed" not in res[h]]
    playback = {}
    if failing:
        out2 = kani(failing, 1, True, "-playback")
        for m in re.finditer(r"fn kani_concrete_playback_(\w+?)_\d+\(\) \{(.*?)kani::concrete_playback_run", out2, re.S):
            name, body = m.group(1), m.group(2)
            vals = []
            for v in re.finditer(r"vec!\[([0-9][0-9, ]*)\]", body):
                vals += [int(x) for x in v.group(1).split(",") if x.strip()]
            playback.setdefault(name, []).append(bytes(vals).hex())
    known = load_known(prop)
    viol = 0
    inconc = 0
    samples = []
    total_checks = 0
    covers = 0
    solver_s = 0.0
    ok_count = 0
    for h in hs:
        sec = res.get(h)
        desc = HARNESSES.get(h, ("", "", ""))
        if h in probe_fail:
            hexvals, msg = probe_fail[h]
            label = f"{h}: {msg}"
            if any(st == "open" and mt in label for st, mt in known):
                lines.append(f"KNOWN-FINDING: property={prop} {label}")
                continue
            viol += 1
            os.makedirs(os.path.join(VERIF, "replays"), exist_ok=True)
            rp = os.path.join(VERIF, "replays", f"{prop}-{h}.json")
            json.dump({"property": prop, "engine": "E2", "harness": h, "input_hex": hexvals, "decides": desc[0], "native_replay": msg,
                       "replay_cmd": f"./check {prop} --replay {rp}"}, open(rp, "w"), indent=1)
            lines.append(f"VIOLATION property={prop} replay={rp}")
            lines.append(f"  probe input {hexvals} of harness {h} fails on the real build: {msg}")
            samples.append({"harness": h, "decides": desc[0], "verdict": "FAILED (probe)", "input_hex": hexvals, "native_replay": msg})
            continue
        if sec is None:
            inconc += 1
            lines.append(f"INCONCLUSIVE property={prop}: harness {h} produced no verdict (build failure or time-out)")
            continue
        m = re.search(r"(\d+) of (\d+) failed", sec)
        if m:
            total_checks += int(m.group(2))
        m = re.search(r"(\d+) of (\d+) cover properties satisfied", sec)
        if m:
            covers += int(m.group(1))
            if int(m.group(1)) < int(m.group(2)):
                inconc += 1
                lines.append(f"INCONCLUSIVE property={prop}: harness {h}: a reachability witness (cover) is unsatisfied — vacuous")
        m = re.search(r"Verification Time: ([0-9.]+)s", sec)
        if m:
            solver_s += float(m.group(1))
        if "VERIFICATION:- SUCCESSFUL" in sec:
            ok_count += 1
            if len(samples) < 6:
                samples.append({"harness": h, "decides": desc[0], "bound": desc[2], "verdict": "SUCCESSFUL"})
            continue
        failed = re.findall(r'Failed Checks: (.*)', sec)
        if "out of memory" in sec or "CBMC failed" in sec or any("unwinding assertion" in f for f in failed) or not failed:
            inconc += 1
            lines.append(f"INCONCLUSIVE property={prop}: harness {h}: {'; '.join(failed) or 'solver failure / out of memory'}")
            continue
        cands = playback.get(h)
        if not cands:
            inconc += 1
            lines.append(f"INCONCLUSIVE property={prop}: harness {h} failed ({'; '.join(failed)}) but no counterexample values were printed")
            continue
        # Kani prints one concrete test per failed check and per satisfied cover: replay them all
        hexvals, rc, msg = None, 0, ""
        for cand in cands:
            rc, msg = replay(binpath, h, cand)
            replays += 1
            if rc == 1:
                hexvals = cand
                break
        if hexvals is None:
            inconc += 1
            lines.append(f"INCONCLUSIVE property={prop}: harness {h}: none of the {len(cands)} printed counterexamples reproduced natively ({msg})")
            continue
        label = f"{h}: {msg}"
        if any(st == "open" and mt in label for st, mt in known):
            lines.append(f"KNOWN-FINDING: property={prop} {label}")
            continue
        viol += 1
        os.makedirs(os.path.join(VERIF, "replays"), exist_ok=True)
        rp = os.path.join(VERIF, "replays", f"{prop}-{h}.json")
        json.dump({"property": prop, "engine": "E2", "harness": h, "input_hex": hexvals, "decides": desc[0], "native_replay": msg,
                   "replay_cmd": f"./check {prop} --replay {rp}"}, open(rp, "w"), indent=1)
        lines.append(f"VIOLATION property={prop} replay={rp}")
        lines.append(f"  Kani counterexample for {h} reproduced on the real build: {msg}")
        samples.append({"harness": h, "decides": desc[0], "verdict": "FAILED", "input_hex": hexvals, "native_replay": msg})
    wall = time.time() - t0
    ev = {
        "property_id": prop, "tier": tier, "seed": seed, "level": "model_checking",
        "coverage": {
            "states": max(1, len(hs)), "transitions": max(1, total_checks), "traces_validated_against_impl": replays + covers,
            "samples": samples or [{"harness": hs[0], "decides": HARNESSES.get(hs[0], ("",))[0]}],
            "exhaustive": inconc == 0,
            "engine": "E2: Kani 0.68 / CBMC 6.11 (cadical) over the compiled real code, out-of-tree harness crate /verif/kani, RUSTFLAGS=--cfg miri (portable cmov/zeroize fallbacks)",
            "harnesses": {h: {"decides": HARNESSES.get(h, ("",))[0], "functions_encoded": HARNESSES.get(h, ("", ""))[1], "bound": HARNESSES.get(h, ("", "", ""))[2]} for h in hs},
            "harnesses_verified": ok_count, "checks_discharged": total_checks, "cover_witnesses_satisfied": covers,
            "obligations": total_checks, "discharged": total_checks if viol == 0 and inconc == 0 else 0,
            "solver": "CBMC SAT back end (cadical), unwinding assertions on", "solver_s": solver_s,
            "counterexamples_replayed_natively": replays, "inconclusive_events": inconc,
        },
        "assumptions": ["cmov/zeroize portable fallbacks (cfg(miri)) are semantically equal to the asm paths", "toy ciphersuites (Z_251, Z_65537) are carriers for frost-core's generic byte-level code only", "CBMC is sound on the generated program; unwinding assertions enabled"],
        "wall_s": wall, "violations": viol,
    }
    json.dump(ev, open(out_path, "w"), indent=1)
    for l in lines:
        print(l)
    print(f"{prop} [{tier}] E2: {len(hs)} harnesses, {ok_count} verified, {viol} violations, {inconc} inconclusive, {total_checks} checks, solver {solver_s:.0f}s, wall {wall:.0f}s")
    return 1 if viol else (2 if inconc else 0)


def replay_file(path):
    v = json.load(open(path))
    binpath = native_replay_bin()
    rc, msg = replay(binpath, v["harness"], v["input_hex"])
    print(msg)
    if rc == 1:
        print(f"VIOLATION property={v['property']} replay={path}")
        return 1
    return 0
