#!/usr/bin/env python3
"""Regenerate /verif/MANIFEST.json from the table below (properties.jsonl is fixed)."""
import json, re
props = [json.loads(l) for l in open('/verif/properties.jsonl')]
CLAIMED = json.load(open('/verif/tools/claimed.json'))   # id -> {engines, note, technique}
checks = []
for p in props:
    c = CLAIMED.get(p['id'])
    if not c:
        continue
    checks.append({
        "property_id": p['id'],
        "quick_cmd": f"./check {p['id']} --tier quick",
        "thorough_cmd": f"./check {p['id']} --tier thorough",
        "evidence_file": f"/verif/evidence/{p['id']}.json",
        "replay_cmd_template": f"./check {p['id']} --replay {{path}}",
        "engine": c["engines"],
        "level_claimed": {
            "category": "model_checking",
            "text": c.get("text", "Bounded symbolic verification of the real code: the generic frost-core / frost-rerandomized code is executed natively over symbolic scalars and elements for every structural case of the stated sweep (all values of keys, coefficients, nonces, messages, adversarial inputs are covered by one run); every data-dependent branch and every property assertion is a z3 query over the integers modulo the real group order that must come back unsat; solver models are replayed on the real ciphersuites before a VIOLATION is printed. Bounds (n, t, identifier sets, subsets, fault positions) are enumerated, not symbolic, and are listed in the evidence."),
            "design_ref": "DESIGN.md §3, §4 " + p['id'],
        },
        "level_note": c["note"],
        "technique": c.get("technique", "symbolic execution of the real generic code (value-domain lifting) + SMT (z3, QF_NIA mod q); bounded structural sweep; replay on real suites"),
    })
na = [{"property_id": p['id'], "reason": "not built yet in this round; scheduled (DESIGN.md §4 " + p['id'] + ")"} for p in props if p['id'] not in CLAIMED]
m = {
    "version": 1,
    "setup_cmd": "./setup.sh",
    "hooks": {"guard": "none", "enable": "no hooks: harness workspaces reach /repo through path dependencies and the existing internals/serialization/serde features ([patch] of k256/sha2 inside the Taproot harness workspace only)", "baseline_off_cmd": "cd /repo && cargo test --workspace --no-fail-fast --offline", "source_commits": [], "add_only": True},
    "engines": [
        {"name": "E1 symfrost", "path": "/verif/symfrost", "serves_properties": sorted(k for k, v in CLAIMED.items() if "E1" in v["engines"]), "kind_free_text": "native symbolic execution of the real generic code over a term-valued Ciphersuite; z3 decides every branch and obligation"},
    ],
    "checks": checks,
    "not_applicable": na,
    "notes": "exit 2 = INCONCLUSIVE (solver unknown/time-out, build failure, non-reproducing model): never reported as holding. known_findings.json lists repaired defects (fix: commits in /repo).",
}
json.dump(m, open('/verif/MANIFEST.json', 'w'), indent=1)
print("claimed:", sorted(CLAIMED))
