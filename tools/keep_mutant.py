#!/usr/bin/env python3
"""keep_mutant.py <srcid> <seedid> <property> "<needs>" "<caught_by>" — archive a confirmed seeded change under /verif/seeded/<seedid>/"""
import json, os, shutil, sys
src, sid, prop, needs, caught = sys.argv[1:6]
o = f"/tmp/mut/{src}-out"
d = f"/verif/seeded/{sid}"
os.makedirs(d, exist_ok=True)
shutil.copy(f"{o}/patch.diff", f"{d}/patch.diff")
shutil.copy(f"{o}/demo.rs", f"{d}/demo.rs")
if os.path.exists(f"{o}/README.md"):
    shutil.copy(f"{o}/README.md", f"{d}/README.md")
confirm = open(f"{o}/confirm.log").read() if os.path.exists(f"{o}/confirm.log") else ""
meta = {
    "id": sid, "breaks_property": prop, "needs_to_manifest": needs,
    "origin": "written by an independent sub-agent given only the property text and a scratch worktree",
    "confirmed_by_me": {
        "how": "tools/confirm_mutant.sh in the scratch worktree: patch applies to the pinned tree; `cargo test --workspace --offline --no-fail-fast` with the patch; demo test with and without the patch",
        "log": confirm.strip().splitlines(),
    },
    "checks_run": caught,
}
json.dump(meta, open(f"{d}/meta.json", "w"), indent=1)
print("kept", d)
