#!/bin/bash
# regression: run every registered check (quick tier) and print one line each
cd /verif
for p in $(python3 -c "import json;print(' '.join(c['property_id'] for c in json.load(open('MANIFEST.json'))['checks']))"); do
  s=$(date +%s.%N); ./check $p --tier ${TIER:-quick} > /tmp/runall_$p.log 2>&1; rc=$?; e=$(date +%s.%N)
  printf "%s exit=%d %.1fs %s\n" $p $rc $(echo "$e - $s" | bc) "$(grep -cE '^VIOLATION|^INCONCLUSIVE' /tmp/runall_$p.log) alarms"
done
