#!/bin/bash
# Re-run every archived seeded change against the checks that are recorded to catch it.
# usage: tools/seeded_regression.sh [<seed-id-prefix>]   — one line per change; /repo is restored after each.
cd /verif
for d in seeded/${1:-}*/; do
  id=$(basename $d)
  props=$(python3 - "$d/meta.json" <<'PY'
import json,re,sys
m=json.load(open(sys.argv[1]))
own=m.get("breaks_property","")
found=re.findall(r"C\d\d", m.get("checks_run",""))
seen=[]
for p in found+[own]:
    if p and p not in seen: seen.append(p)
# the property's own check first if it is among those recorded as catching
print(" ".join(seen))
PY
)
  caught=""
  for p in $props; do
    out=$(tools/try_mutant.sh /verif/$d/patch.diff $p 2>&1)
    if echo "$out" | grep -q "== $p exit=1"; then caught="$caught $p"; break; fi
    rc=$(echo "$out" | grep -oE "== $p exit=[0-9]+" | head -1)
    tried="$tried $rc"
  done
  if [ -n "$caught" ]; then echo "CAUGHT $id by$caught"; else echo "NOT-CAUGHT $id (tried: $props)"; fi
done
