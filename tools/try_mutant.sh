#!/bin/bash
# usage: try_mutant.sh <patch.diff> <prop> [<prop>...] — apply a seeded change to /repo, run checks, always revert
P=$1; shift
cd /repo && git apply --check "$P" || { echo "patch does not apply"; exit 9; }
git apply "$P"
trap 'git -C /repo checkout -- . ; git -C /repo status --short | head -3' EXIT
for prop in "$@"; do
  cd /verif && ./check $prop --tier ${TIER:-quick} > /tmp/try_$prop.log 2>&1; rc=$?
  echo "== $prop exit=$rc"; grep -E "^VIOLATION|^INCONCLUSIVE|^KNOWN|failure-label" /tmp/try_$prop.log | cut -c1-260 | head -8; tail -1 /tmp/try_$prop.log | cut -c1-200
done
