#!/bin/bash
# usage: try_mutant.sh <patch.diff> <prop> [<prop>...] — apply a seeded change to /repo, run checks, always revert
P=$1; shift
cd /repo && git apply --check "$P" || { echo "patch does not apply"; exit 9; }
git apply "$P"
# evidence written while a seeded change is applied must not survive: keep the real one aside
EVB=$(mktemp -d /tmp/evidence-keep.XXXXXX); cp -a /verif/evidence/. $EVB/
trap 'git -C /repo checkout -- . ; git -C /repo status --short | head -3; rm -rf /verif/evidence; mkdir -p /verif/evidence; cp -a $EVB/. /verif/evidence/; rm -rf $EVB' EXIT
for prop in "$@"; do
  cd /verif && ./check $prop --tier ${TIER:-quick} > /tmp/try_$prop.log 2>&1; rc=$?
  echo "== $prop exit=$rc"; grep -E "^VIOLATION|^INCONCLUSIVE|^KNOWN|failure-label" /tmp/try_$prop.log | cut -c1-260 | head -8; tail -1 /tmp/try_$prop.log | cut -c1-200
done
